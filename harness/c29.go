package main

// Domain C29: fast name discovery (v2.ReadSwampName) and the explorer's listing on files the real
// writer produced (V3 fresh / appended / still open) and on legacy V2 files (synthesised as the old
// writer laid them out, optionally appended to by the current writer).
//
// ops:   case N
//        create NAMESPEC                 NewFileWriterWithName on a fresh path with that name, then Close
//        f HEX EXPECTEDNAMESPEC KIND     a file's bytes (made by the generator with the real writer); stored in the
//                                        case directory; KIND ∈ v3 v3app v3open v3noname v2 v2app v2resv v2nometa v3cmp v2cmp (rewritten by the real Compactor)
//        scan                            Scan of the case directory by the case's ONE explorer (re-scans reuse it), then the full listing
//        wipe | rmlast                   delete every file / the newest file of the case directory (then `scan` again)
// reply: ok | rej longname
//        name HEX | name err KIND
//        listing total=T scanned=S errors=E names=HEX,HEX,…

import (
	"bufio"
	"context"
	"encoding/binary"
	"fmt"
	"hash/crc32"
	"math/rand"
	"os"
	"path/filepath"
	"sort"
	"strings"

	v2 "github.com/hydraide/hydraide/app/core/hydra/swamp/chronicler/v2"
	"github.com/hydraide/hydraide/app/server/explorer"
)

func init() { Register("C29", Domain{Gen: c29Gen, Run: c29Run}) }

func c29NameLine(path string) string {
	n, err := v2.ReadSwampName(path)
	if err != nil {
		if _, e2 := v2.NewFileReader(path); e2 != nil {
			return "name err " + c01ErrKind(err, true)
		}
		return "name err " + c01ErrKind(err, false)
	}
	return "name " + c01Hex([]byte(n))
}

func c29Listing(e *explorer.Explorer) string {
	if err := e.Scan(context.Background()); err != nil {
		return "listing err " + strings.ReplaceAll(err.Error(), " ", "_")
	}
	st := e.GetScanStatus()
	var names []string
	for _, s := range e.ListSanctuaries() {
		for _, d := range e.ListAllSwamps(s.Name, "") {
			names = append(names, d.Sanctuary+"/"+d.Realm+"/"+d.Swamp)
		}
	}
	sort.Strings(names)
	hx := make([]string, len(names))
	for i, n := range names {
		hx[i] = c01Hex([]byte(n))
	}
	if len(hx) == 0 {
		hx = []string{"none"}
	}
	// the same set through the paginated, filtered and per-swamp queries
	paged := "ok"
	var viaPages []string
	for off := int64(0); ; off += 3 {
		r := e.ListSwamps(&explorer.SwampFilter{Offset: off, Limit: 3})
		if r == nil || int(r.Total) != len(names) {
			paged = "DIFF-total"
			break
		}
		for _, d := range r.Swamps {
			viaPages = append(viaPages, d.Sanctuary+"/"+d.Realm+"/"+d.Swamp)
		}
		if off+3 >= r.Total {
			break
		}
	}
	if paged == "ok" && strings.Join(viaPages, "\x00") != strings.Join(names, "\x00") { // pages in name order, union = the set
		paged = "DIFF-pages"
	}
	realms := 0
	for _, sn := range e.ListSanctuaries() {
		realms += len(e.ListRealms(sn.Name))
	}
	detail := "ok"
	for _, n := range names {
		p := strings.SplitN(n, "/", 3)
		if d, err := e.GetSwampDetail(p[0], p[1], p[2]); err != nil || d == nil {
			detail = "DIFF"
		}
	}
	// what a caller gets who asks for "everything" in one ListSwamps call, as the TUI does per realm
	one := e.ListSwamps(&explorer.SwampFilter{Limit: 10000})
	nm := strings.Join(hx, ",")
	if len(names) > 40 { // large directories: digest instead of the full list
		nm = fmt.Sprintf("digest:%d:%08x", len(names), crc32.ChecksumIEEE([]byte(strings.Join(hx, ","))))
	}
	return fmt.Sprintf("listing total=%d scanned=%d errors=%d names=%s paged=%s realms=%d detail=%s onepage=%d/%d", st.TotalFiles, st.ScannedFiles, st.ErrorCount,
		nm, paged, realms, detail, len(one.Swamps), one.Total)
}

func c29Run(in *bufio.Scanner, w *bufio.Writer) {
	root, err := os.MkdirTemp("", "hvc29-")
	if err != nil {
		panic(err)
	}
	defer os.RemoveAll(root)
	dir, n := root, 0
	var ex *explorer.Explorer
	var paths []string
	for in.Scan() {
		line := in.Text()
		f := strings.Split(line, " ")
		switch {
		case f[0] == "case" && len(f) == 2:
			dir = filepath.Join(root, "case"+f[1])
			_ = os.MkdirAll(filepath.Join(dir, "600", "ab"), 0o755)
			n = 0
			ex = explorer.New(dir)
			paths = nil
			fmt.Fprintln(w, line)
		case f[0] == "create" && len(f) == 2:
			name, ok := c01Spec(f[1])
			if !ok {
				fmt.Fprintln(w, "bad-op")
				continue
			}
			n++
			p := filepath.Join(dir, "600", "ab", fmt.Sprintf("c%04d.hyd", n))
			fw, err := v2.NewFileWriterWithName(p, 0, string(name))
			if err != nil {
				_ = os.Remove(p)
				if strings.Contains(err.Error(), "too long") {
					fmt.Fprintln(w, "rej longname")
				} else {
					fmt.Fprintln(w, "rej other:"+strings.ReplaceAll(err.Error(), " ", "_"))
				}
				continue
			}
			_ = fw.Close()
			paths = append(paths, p)
			fmt.Fprintln(w, "ok")
		case f[0] == "wipe" && len(f) == 1:
			for _, p := range paths {
				_ = os.Remove(p)
			}
			paths = nil
			fmt.Fprintln(w, "ok")
		case f[0] == "rmlast" && len(f) == 1:
			if len(paths) > 0 {
				_ = os.Remove(paths[len(paths)-1])
				paths = paths[:len(paths)-1]
			}
			fmt.Fprintln(w, "ok")
		case f[0] == "f" && len(f) == 4:
			b, ok := c01Unhex(f[1])
			if !ok {
				fmt.Fprintln(w, "bad-op")
				continue
			}
			n++
			p := filepath.Join(dir, "600", "ab", fmt.Sprintf("f%04d.hyd", n))
			_ = os.WriteFile(p, b, 0o644)
			paths = append(paths, p)
			fmt.Fprintln(w, c29NameLine(p))
		case f[0] == "scan" && len(f) == 1:
			if ex == nil {
				ex = explorer.New(dir)
			}
			fmt.Fprintln(w, c29Listing(ex))
		default:
			fmt.Fprintln(w, "bad-op")
		}
	}
}

// ---------------------------------------------------------------- generator

func c29Name(rng *rand.Rand) []byte {
	parts := []string{"dom", "realm", "swamp", "users", "idx", "a", "ÁrvíztűrŐ", "数据", "x.y", "-", ""}
	switch rng.Intn(10) {
	case 0: // binary
		b := make([]byte, 1+rng.Intn(30))
		rng.Read(b)
		return b
	case 1: // no or one slash
		return []byte(parts[rng.Intn(len(parts))] + []string{"", "/" + parts[rng.Intn(len(parts))]}[rng.Intn(2)])
	case 2: // many slashes
		k := 3 + rng.Intn(4)
		var s []string
		for i := 0; i < k; i++ {
			s = append(s, parts[rng.Intn(len(parts))])
		}
		return []byte(strings.Join(s, "/"))
	case 3: // long
		n := []int{255, 256, 1000, 65535}[rng.Intn(4)]
		b := c01GenBytes(n, rng.Intn(99))
		for i := range b {
			b[i] = 'a' + b[i]%26
		}
		b[3], b[9] = '/', '/'
		return b
	}
	return []byte(parts[rng.Intn(8)] + "/" + parts[rng.Intn(8)] + "/" + parts[rng.Intn(8)] + fmt.Sprint(rng.Intn(1000)))
}

func c29Entries(rng *rand.Rand) []v2.Entry {
	var es []v2.Entry
	for i, n := 0, rng.Intn(8); i < n; i++ {
		e := v2.Entry{Operation: uint8(1 + rng.Intn(3)), Key: fmt.Sprintf("k%d", rng.Intn(5))}
		if e.Operation != v2.OpDelete {
			e.Data = c01GenBytes(rng.Intn(80), rng.Intn(99))
		}
		es = append(es, e)
	}
	return es
}

// c29Legacy lays a version-2 file out as the old writer did: header (NameLength bytes zero), then
// blocks, the very first entry being the OpMetadata entry with the reserved key.
func c29Legacy(rng *rand.Rand, name []byte, withMeta bool, reservedNoise bool) []byte {
	h := v2.NewFileHeader()
	h.Version = v2.Version2
	out := h.Serialize()
	binary.LittleEndian.PutUint16(out[44:46], 0)
	if reservedNoise { // bytes 44..59 were all "reserved" in V2: a reader must not take 44..45 as a length
		out[44], out[45] = byte(1+rng.Intn(255)), byte(rng.Intn(256))
	}
	var first []v2.Entry
	if withMeta {
		first = append(first, v2.Entry{Operation: v2.OpMetadata, Key: v2.MetadataEntryKey, Data: name})
	}
	first = append(first, c29Entries(rng)...)
	blocks := [][]v2.Entry{first}
	for i, n := 0, rng.Intn(3); i < n; i++ {
		blocks = append(blocks, c29Entries(rng))
	}
	var bc, ec uint64
	for _, b := range blocks {
		bh, c, err := v2.CompressEntries(b)
		if err != nil || bh == nil {
			continue
		}
		out = append(out, bh.Serialize()...)
		out = append(out, c...)
		bc++
		ec += uint64(len(b))
	}
	binary.LittleEndian.PutUint64(out[28:36], ec)
	binary.LittleEndian.PutUint64(out[36:44], bc)
	return out
}

func c29Gen(rng *rand.Rand, tier string, w *bufio.Writer) {
	dir, err := os.MkdirTemp("", "hvc29g-")
	if err != nil {
		panic(err)
	}
	defer os.RemoveAll(dir)
	nfile := 0
	newPath := func() string {
		nfile++
		return filepath.Join(dir, fmt.Sprintf("g%06d.hyd", nfile))
	}
	emit := func(path string, name []byte, kind string) {
		b, err := os.ReadFile(path)
		if err != nil {
			return
		}
		fmt.Fprintf(w, "f %s x:%s %s\n", c01Hex(b), c01Hex(name), kind)
	}
	// v3 family: returns false when the constructor refused the name
	v3 := func(name []byte, kind string) bool {
		p := newPath()
		bs := []int{0, 64, 256, 4096}[rng.Intn(4)]
		fw, err := v2.NewFileWriterWithName(p, bs, string(name))
		if err != nil {
			return false
		}
		for _, e := range c29Entries(rng) {
			_ = fw.WriteEntry(e)
		}
		switch kind {
		case "v3open": // snapshot while the writer is still open (only flushed blocks + header are on disk)
			if rng.Intn(2) == 0 {
				_ = fw.Flush()
			}
			emit(p, name, kind)
			_ = fw.Close()
			return true
		case "v3app":
			_ = fw.Close()
			for s, n := 0, 1+rng.Intn(3); s < n; s++ {
				fw, err = v2.NewFileWriterWithName(p, bs, "another/name/ignored")
				if err != nil {
					return true
				}
				for _, e := range c29Entries(rng) {
					_ = fw.WriteEntry(e)
				}
				if rng.Intn(3) == 0 {
					_ = fw.Sync()
				}
				_ = fw.Close()
			}
		case "v3cmp":
			_ = fw.Close()
			if _, err := v2.NewCompactor(p, bs, 0).ForceCompact(); err != nil {
				return true
			}
		case "v3torn":
			// crash between the header write and the name write of createNewFile: the file holds the
			// header and only part of the name; the swamp's writer opens it again and goes on
			_ = fw.Close()
			img, err := os.ReadFile(p)
			if err != nil || len(name) == 0 {
				return true
			}
			_ = os.WriteFile(p, img[:64+rng.Intn(len(name))], 0o644)
			fw, err = v2.NewFileWriterWithName(p, bs, string(name))
			if err != nil {
				return true
			}
			for _, e := range c29Entries(rng) {
				_ = fw.WriteEntry(e)
			}
			_ = fw.WriteEntry(v2.Entry{Operation: 1, Key: "after-crash", Data: []byte("x")})
			_ = fw.Close()
		default:
			_ = fw.Close()
		}
		emit(p, name, kind)
		return true
	}
	legacy := func(name []byte, kind string) {
		p := newPath()
		b := c29Legacy(rng, name, kind != "v2nometa", kind == "v2resv")
		_ = os.WriteFile(p, b, 0o644)
		if kind == "v2app" {
			for s, n := 0, 1+rng.Intn(2); s < n; s++ {
				fw, err := v2.NewFileWriter(p, 256)
				if err != nil {
					break
				}
				for _, e := range c29Entries(rng) {
					_ = fw.WriteEntry(e)
				}
				_ = fw.Close()
			}
		}
		if kind == "v2cmp" { // compaction upgrades a legacy file to V3, keeping the metadata name
			if _, err := v2.NewCompactor(p, 256, 0).ForceCompact(); err != nil {
				return
			}
		}
		exp := name
		if kind == "v2nometa" {
			exp = nil
		}
		emit(p, exp, kind)
	}
	caseNo := 0
	// ---- corpus: the 16-bit name length
	fmt.Fprintf(w, "case %d\n", caseNo)
	caseNo++
	for _, n := range []int{65535, 65536, 65537, 70000} {
		name := c01GenBytes(n, 7)
		for i := range name {
			name[i] = 'a' + name[i]%26
		}
		name[3], name[9] = '/', '/'
		fmt.Fprintf(w, "create g:%d:7\n", n) // the spec regenerates other bytes; only the length matters for this op
		v3(name, "v3")
	}
	v3([]byte("dom/realm/swamp"), "v3")
	legacy([]byte("old/style/swamp"), "v2")
	v3([]byte("dom/realm/compacted"), "v3cmp")
	v3([]byte("dom/realm/torn-at-create"), "v3torn")
	legacy([]byte("old/style/compacted"), "v2cmp")
	fmt.Fprintln(w, "scan")
	fmt.Fprintln(w, "rmlast")
	fmt.Fprintln(w, "scan")
	fmt.Fprintln(w, "wipe")
	fmt.Fprintln(w, "scan") // a re-scan that finds nothing must list nothing
	// a realm with more swamps than one ListSwamps page can carry (the limit is clamped to 1000)
	fmt.Fprintf(w, "case %d\n", caseNo)
	caseNo++
	{
		p := newPath()
		fw, err := v2.NewFileWriterWithName(p, 0, "big/realm/s0000")
		if err == nil {
			_ = fw.Close()
			img, _ := os.ReadFile(p)
			for i := 0; i < 1001; i++ {
				nm := []byte(fmt.Sprintf("big/realm/s%04d", i))
				x := append([]byte{}, img...)
				copy(x[64:], nm) // same length: only the name bytes differ
				fmt.Fprintf(w, "f %s x:%s v3\n", c01Hex(x), c01Hex(nm))
			}
		}
	}
	fmt.Fprintln(w, "scan")
	// more damaged files than scan workers (the pool has at most 64), plus a few good ones
	fmt.Fprintf(w, "case %d\n", caseNo)
	caseNo++
	for i := 0; i < 80; i++ {
		junk := make([]byte, 10+rng.Intn(120))
		rng.Read(junk)
		fmt.Fprintf(w, "f %s x:- junk\n", c01Hex(junk))
		if i%27 == 13 {
			v3([]byte(fmt.Sprintf("many/damaged/good%d", i)), "v3")
		}
	}
	fmt.Fprintln(w, "scan")
	// ---- random directories
	cases, per := 40, 14
	if tier == "thorough" {
		cases, per = 600, 40
	}
	for c := 0; c < cases; c++ {
		fmt.Fprintf(w, "case %d\n", caseNo)
		caseNo++
		var used [][]byte
		for i, n := 0, 1+rng.Intn(per); i < n; i++ {
			name := c29Name(rng)
			if len(used) > 0 && rng.Intn(6) == 0 { // two files claiming the same swamp name: the index keeps one entry
				name = used[rng.Intn(len(used))]
			}
			used = append(used, name)
			switch k := rng.Intn(24); {
			case k >= 22:
				legacy(name, "v2cmp")
			case k >= 20:
				v3(name, []string{"v3cmp", "v3torn"}[rng.Intn(2)])
			case k < 6:
				v3(name, "v3")
			case k < 10:
				v3(name, "v3app")
			case k < 12:
				v3(name, "v3open")
			case k < 13:
				v3(nil, "v3noname")
			case k < 16:
				legacy(name, "v2")
			case k < 18:
				legacy(name, "v2app")
			case k < 19:
				legacy(name, "v2resv")
			default:
				legacy(name, "v2nometa")
			}
			if rng.Intn(25) == 0 {
				fmt.Fprintf(w, "create x:%s\n", c01Hex(name))
			}
		}
		fmt.Fprintln(w, "scan")
		if rng.Intn(3) == 0 {
			fmt.Fprintln(w, []string{"rmlast", "wipe"}[rng.Intn(2)])
			fmt.Fprintln(w, "scan")
		}
	}
}
