package main

// Domain C12s: stress + trace inclusion for the Cap budget.  `gen` runs genuinely concurrent
// Cap-bearing RPCs on one swamp of the in-process server: PatchTreasures (with and without
// CreateIfNotExist + seed), PatchExpiredTreasures, single-key Deletes in flight while batches count,
// and ShiftMatchingTreasures at quiescent points — all sharing one Cap{status==active, M}.
// Every batch line is logged by the RPC's own goroutine while it holds capMu:
//
//   init M t0 t1 …            cap and records (1 active, 0 idle, - absent); r0..r5 carry an expiry in the past
//   submit B [c=a|c=i] k:v …  PatchTreasures batch B is about to be sent (logged by the caller)
//   lock B                    capPreCount: capMu taken
//   count B C                 capPreCount: C records match the cap's filter
//   patched B K R             PatchFields on r<K> returned R (P patched, C created, N not found, X cap exceeded)
//   unlock B                  the deferred UnlockCapMu is about to run
//   xsubmit B N / xlock B / xkeys B k… / xunlock B      the same for PatchExpired{HowMany N}: the records it selected
//   dpre K / dpost K          a Delete of r<K> is about to be sent / has returned (it takes no cap lock: a count
//                             in between may or may not see it)
//   shift k…                  ShiftMatching (idle records) removed these records; sequential
//   quiet m                   quiescent point: m records match the filter now
//   hang
//
// `run` answers `ok`; the Lean driver (mode=trace) answers `ok` iff the Cap model takes the same
// steps with the same observable values: capMu is free when it is taken, the count equals the
// model's matching records (deletes in flight accounted for), every per-key result is the model's
// four-cell outcome, a PatchExpired never selects more than the budget, and the number of matching
// records agrees at every quiescent point.

import (
	"bufio"
	"context"
	"fmt"
	"io"
	log2 "log"
	"log/slog"
	"math/rand"
	"strconv"
	"strings"
	"sync"
	"time"

	"github.com/hydraide/hydraide/app/core/hydra/swamp"
	"github.com/hydraide/hydraide/app/core/hydra/swamp/treasure"
	"github.com/hydraide/hydraide/app/core/settings"
	"github.com/hydraide/hydraide/app/name"
	"github.com/hydraide/hydraide/app/verifhook"
	hydrapb "github.com/hydraide/hydraide/sdk/go/hydraidego/v3/hydraidepbgo"
	"github.com/vmihailenco/msgpack/v5"
	"google.golang.org/protobuf/types/known/timestamppb"
)

func init() { Register("C12s", Domain{Gen: genC12s, Run: runC14s}) }

const c12sPatchKeys, c12sAllKeys = 6, 10 // r0..r5: patched / expired records; r6..r9: created and deleted

func genC12s(rng *rand.Rand, tier string, w *bufio.Writer) {
	rounds, gor, phases, iters := 5, 5, 6, 6
	if tier == "thorough" {
		rounds, gor, phases, iters = 40, 8, 10, 12
	}
	slog.SetDefault(slog.New(slog.NewTextHandler(io.Discard, nil)))
	log2.SetOutput(io.Discard)
	rig, err := NewRig(2, 100, 3600, 1)
	if err != nil {
		fmt.Fprintln(w, "case 0\nrig-error")
		return
	}
	defer rig.Stop(true)
	rig.Settings.RegisterPattern(name.New().Sanctuary("c12s").Realm("*").Swamp("*"), true, 3600, &settings.FileSystemSettings{WriteIntervalSec: 1, MaxFileSizeByte: 8192})
	runID := time.Now().UnixNano()
	ctx := context.Background()
	for r := 0; r < rounds; r++ {
		swName := name.New().Sanctuary("c12s").Realm("round").Swamp(fmt.Sprintf("%d-%d", r, runID))
		capMax := int32(1 + rng.Intn(5))
		var mu sync.Mutex
		var log []string
		batchOf := map[string]int{} // goroutine → the batch it is sending
		add := func(format string, a ...any) {
			mu.Lock()
			log = append(log, fmt.Sprintf(format, a...))
			mu.Unlock()
		}
		// records
		toks := make([]string, c12sAllKeys)
		var ps []*hydrapb.TreasurePatch
		for i := 0; i < c12sAllKeys; i++ {
			switch x := rng.Intn(4); {
			case x == 0:
				toks[i] = "-"
				continue
			case x == 1:
				toks[i] = "1"
			default:
				toks[i] = "0"
			}
			p := &hydrapb.TreasurePatch{Key: c12Key(i), Ops: []*hydrapb.PatchOp{{Op: hydrapb.PatchOp_SET, Path: "status", Value: c12Val(toks[i] == "1")}}}
			if i < c12sPatchKeys {
				p.Meta = &hydrapb.PatchMeta{SetExpiredAt: timestamppb.New(time.Now().UTC().Add(-time.Duration(1000-i) * time.Hour))}
			}
			ps = append(ps, p)
		}
		keep, _ := msgpack.Marshal("keep")
		ps = append(ps, &hydrapb.TreasurePatch{Key: "zz", Ops: []*hydrapb.PatchOp{{Op: hydrapb.PatchOp_SET, Path: "status", Value: keep}}})
		fmt.Fprintf(w, "case %d\n", r)
		if _, err := rig.GW.PatchTreasures(ctx, &hydrapb.PatchTreasuresRequest{IslandID: 1, SwampName: swName.Get(), CreateIfNotExist: true, Patches: ps}); err != nil {
			fmt.Fprintln(w, "init-error")
			continue
		}
		sw, err := rig.Zeus.GetHydra().SummonSwamp(ctx, 1, swName)
		if err != nil {
			fmt.Fprintln(w, "init-error")
			continue
		}
		matching := func() int {
			return int(sw.CountMatchingTreasures(func(t treasure.Treasure) bool {
				raw, err := t.GetContentByteArray()
				if err != nil || len(raw) < 2 {
					return false
				}
				var m map[string]any
				if msgpack.Unmarshal(raw[2:], &m) != nil {
					return false
				}
				return m["status"] == "active"
			}))
		}
		if m := int32(matching()); m > capMax {
			capMax = m // the property presupposes that the cap is not exceeded to begin with
		}
		add("init %d %s", capMax, strings.Join(toks, " "))
		verifhook.SetHandler(func(hook string, args ...any) {
			if !(strings.HasPrefix(hook, "cap.") || strings.HasPrefix(hook, "pexp.")) || len(args) < 1 {
				return
			}
			x, ok := args[0].(swamp.Swamp)
			if !ok || x.GetName().Get() != swName.Get() {
				return
			}
			g := goid()
			mu.Lock()
			defer mu.Unlock()
			b, known := batchOf[g]
			if !known {
				return
			}
			switch hook {
			case "cap.mid":
				log = append(log, fmt.Sprintf("lock %d", b))
			case "cap.counted":
				c, _ := args[1].(int32)
				log = append(log, fmt.Sprintf("count %d %d", b, c))
			case "cap.patched":
				key, _ := args[1].(string)
				st, _ := args[3].(int)
				r := map[int]string{0: "P", 1: "C", 2: "N", 9: "X"}[st]
				if r == "" || args[4] != nil {
					r = "?" + strconv.Itoa(st)
				}
				log = append(log, fmt.Sprintf("patched %d %s %s", b, strings.TrimPrefix(key, "r"), r))
			case "cap.unlocking":
				log = append(log, fmt.Sprintf("unlock %d", b))
			case "pexp.locked":
				log = append(log, fmt.Sprintf("xlock %d", b))
			case "pexp.keys":
				keys, _ := args[1].([]string)
				var ks []string
				for _, k := range keys {
					ks = append(ks, strings.TrimPrefix(k, "r"))
				}
				log = append(log, strings.TrimSpace(fmt.Sprintf("xkeys %d %s", b, strings.Join(ks, " "))))
			case "pexp.unlocking":
				log = append(log, fmt.Sprintf("xunlock %d", b))
			}
		})
		nextBatch := 0
		var bmu sync.Mutex
		newBatch := func() int {
			bmu.Lock()
			defer bmu.Unlock()
			nextBatch++
			return nextBatch
		}
		hung := false
		for ph := 0; ph < phases && !hung; ph++ {
			deleting := ph%2 == 1 // odd phases: r6..r9 are being deleted while batches work on r0..r5
			var wg sync.WaitGroup
			for g := 0; g < gor; g++ {
				wg.Add(1)
				seed := rng.Int63()
				deleter := deleting && g == 0
				go func(seed int64, deleter bool) {
					defer wg.Done()
					lr := rand.New(rand.NewSource(seed))
					me := goid()
					if deleter {
						for _, k := range lr.Perm(c12sAllKeys - c12sPatchKeys) {
							k += c12sPatchKeys
							add("dpre %d", k)
							_, _ = rig.GW.Delete(ctx, &hydrapb.DeleteRequest{Swamps: []*hydrapb.DeleteRequest_SwampKeys{{IslandID: 1, SwampName: swName.Get(), Keys: []string{c12Key(k)}}}})
							add("dpost %d", k)
							time.Sleep(time.Duration(lr.Intn(300)) * time.Microsecond)
						}
						return
					}
					for i := 0; i < iters; i++ {
						b := newBatch()
						mu.Lock()
						batchOf[me] = b
						mu.Unlock()
						span := c12sAllKeys
						if deleting {
							span = c12sPatchKeys
						}
						if lr.Intn(4) == 0 {
							n := lr.Intn(4)
							add("xsubmit %d %d", b, n)
							active, _ := msgpack.Marshal("active")
							_, _ = rig.GW.PatchExpiredTreasures(ctx, &hydrapb.PatchExpiredTreasuresRequest{IslandID: 1, SwampName: swName.Get(), HowMany: int32(n),
								Ops:  []*hydrapb.PatchOp{{Op: hydrapb.PatchOp_SET, Path: "status", Value: active}},
								Meta: &hydrapb.PatchMeta{SetExpiredAt: timestamppb.New(time.Now().UTC().Add(time.Hour))},
								Cap:  &hydrapb.Cap{Filter: c12StatusFilter(), MaxMatching: capMax}})
							continue
						}
						var ps []*hydrapb.TreasurePatch
						var desc []string
						create, seedB := false, []byte(nil)
						if lr.Intn(3) == 0 {
							create = true
							sv := []string{"a", "i"}[lr.Intn(2)]
							seedB, _ = msgpack.Marshal(map[string]string{"status": map[string]string{"a": "active", "i": "idle"}[sv]})
							desc = append(desc, "c="+sv)
						}
						for n := 1 + lr.Intn(3); n > 0; n-- {
							k, v := lr.Intn(span), lr.Intn(3) > 0
							ps = append(ps, &hydrapb.TreasurePatch{Key: c12Key(k), Ops: []*hydrapb.PatchOp{{Op: hydrapb.PatchOp_SET, Path: "status", Value: c12Val(v)}}})
							desc = append(desc, fmt.Sprintf("%d:%d", k, c14b(v)))
						}
						add("submit %d %s", b, strings.Join(desc, " "))
						_, _ = rig.GW.PatchTreasures(ctx, &hydrapb.PatchTreasuresRequest{IslandID: 1, SwampName: swName.Get(), Patches: ps,
							CreateIfNotExist: create, InitialMsgpackOnCreate: seedB,
							Cap: &hydrapb.Cap{Filter: c12StatusFilter(), MaxMatching: capMax}})
					}
					mu.Lock()
					delete(batchOf, me)
					mu.Unlock()
				}(seed, deleter)
			}
			done := make(chan struct{})
			go func() { wg.Wait(); close(done) }()
			select {
			case <-done:
			case <-time.After(HxScale(60 * time.Second)):
				hung = true
			}
			if hung {
				break
			}
			if rng.Intn(2) == 0 {
				p := "status"
				resp, err := rig.GW.ShiftMatchingTreasures(ctx, &hydrapb.ShiftMatchingTreasuresRequest{IslandID: 1, SwampName: swName.Get(),
					IndexType: hydrapb.IndexType_KEY, OrderType: hydrapb.OrderType_ASC, HowMany: int32(1 + rng.Intn(2)),
					Filters: &hydrapb.FilterGroup{Logic: hydrapb.FilterLogic_AND, Filters: []*hydrapb.TreasureFilter{{BytesFieldPath: &p,
						Operator: hydrapb.Relational_EQUAL, CompareValue: &hydrapb.TreasureFilter_StringVal{StringVal: "idle"}}}},
					Cap: &hydrapb.Cap{Filter: c12StatusFilter(), MaxMatching: capMax}})
				if err == nil && resp != nil {
					var ks []string
					for _, t := range resp.GetTreasures() {
						ks = append(ks, strings.TrimPrefix(t.GetKey(), "r"))
					}
					add("%s", strings.TrimSpace("shift "+strings.Join(ks, " ")))
				}
			}
			add("quiet %d", matching())
		}
		verifhook.SetHandler(nil)
		mu.Lock()
		for _, l := range log {
			fmt.Fprintln(w, l)
		}
		if hung {
			fmt.Fprintln(w, "hang")
		}
		mu.Unlock()
		if hung {
			return
		}
	}
}
