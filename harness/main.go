// hx — correspondence harness. Drives the real hydraide code (built from /repo's working
// tree with -tags verif) through a line protocol; the Lean driver answers the same lines
// from the model, and /verif/check diffs the two output streams.
//
//	hx gen <domain> -seed S -tier quick|thorough   → ops on stdout
//	hx run <domain> < ops                           → one result line per op line
package main

import (
	"bufio"
	"flag"
	"fmt"
	"math/rand"
	"os"
	"sort"
	"strconv"
	"time"
)

type Domain struct {
	// Gen writes op lines. All randomness comes from rng.
	Gen func(rng *rand.Rand, tier string, w *bufio.Writer)
	// Run reads op lines and writes exactly one result line per op line.
	Run func(in *bufio.Scanner, w *bufio.Writer)
}

var domains = map[string]Domain{}

// HxScale multiplies every harness timeout. /verif/check re-runs a mismatching case alone with
// HX_TIMEOUT_SCALE=6 before reporting it, so that a busy machine cannot turn a slow reply into a
// "hang"; harness code must write its limits as  HxScale(4 * time.Second).
func HxScale(d time.Duration) time.Duration {
	if v := os.Getenv("HX_TIMEOUT_SCALE"); v != "" {
		if n, err := strconv.Atoi(v); err == nil && n > 1 {
			return d * time.Duration(n)
		}
	}
	return d
}

func Register(name string, d Domain) { domains[name] = d }

func main() {
	if len(os.Args) < 3 {
		var names []string
		for k := range domains {
			names = append(names, k)
		}
		sort.Strings(names)
		fmt.Fprintln(os.Stderr, "usage: hx gen|run <domain> [-seed S] [-tier T]; domains:", names)
		os.Exit(2)
	}
	mode, name := os.Args[1], os.Args[2]
	fs := flag.NewFlagSet("hx", flag.ExitOnError)
	seed := fs.Int64("seed", 1, "PRNG seed")
	tier := fs.String("tier", "quick", "quick|thorough")
	_ = fs.Parse(os.Args[3:])
	d, ok := domains[name]
	if !ok {
		fmt.Fprintln(os.Stderr, "hx: unknown domain", name)
		os.Exit(2)
	}
	w := bufio.NewWriterSize(os.Stdout, 1<<20)
	defer w.Flush()
	switch mode {
	case "gen":
		d.Gen(rand.New(rand.NewSource(*seed)), *tier, w)
	case "run":
		sc := bufio.NewScanner(os.Stdin)
		sc.Buffer(make([]byte, 1<<20), 1<<28)
		d.Run(sc, w)
	default:
		fmt.Fprintln(os.Stderr, "hx: unknown mode", mode)
		os.Exit(2)
	}
}
