package main

// Domain C18s: stress + trace inclusion for SummonSwamp's wait-slot protocol.  `gen` runs genuinely
// concurrent SummonSwamp calls for ONE swamp name on the real hydra (in-process server), with
// cancelled / expiring contexts, while the summoned instances are closed and destroyed — also
// through stale handles — under the summoners' feet.  Log lines (T = call number, S = wait-slot
// object, I = instance, both numbered in order of first appearance):
//
//   count T S C M     under summonMu: T looked slot S up and counted itself, count is now C,
//                     the name is mapped to slot M (`-`: unmapped)
//   wait T S          under the slot's cond.L: ready is set, T goes to sleep
//   ready T S         under cond.L: T sets ready and enters the body
//   giveup T S        under cond.L: T's context is done while ready is set; Broadcast
//   create T          body: no instance is mapped, T constructs one
//   stored T I        body: T has stored instance I in the swamps map
//   found T I         body: T returns the mapped instance I
//   unready T S       under cond.L: T clears ready; Broadcast
//   uncount T S C M   under summonMu: T gave its count back, count is now C, mapping M
//   callback I        the close callback of instance I is about to CompareAndDelete it
//   hang              a SummonSwamp call never returned
//
// `run` answers `ok`; the Lean driver (mode=trace) answers `ok` iff the summon model takes the same
// step with the same observable values (slot identity, count, mapping, who may enter, that a
// construction happens only with nothing mapped and nothing live).

import (
	"bufio"
	"context"
	"fmt"
	"io"
	log2 "log"
	"log/slog"
	"math/rand"
	"strconv"
	"strings"
	"sync"
	"time"

	"github.com/hydraide/hydraide/app/core/hydra"
	"github.com/hydraide/hydraide/app/core/hydra/swamp"
	"github.com/hydraide/hydraide/app/core/settings"
	"github.com/hydraide/hydraide/app/name"
	"github.com/hydraide/hydraide/app/verifhook"
)

func init() { Register("C18s", Domain{Gen: genC18s, Run: runC14s}) }

func genC18s(rng *rand.Rand, tier string, w *bufio.Writer) {
	rounds, gor, iters := 6, 6, 30
	if tier == "thorough" {
		rounds, gor, iters = 40, 10, 80
	}
	// (the generator's output IS the log: keep the server's own logging out of it)
	slog.SetDefault(slog.New(slog.NewTextHandler(io.Discard, nil)))
	log2.SetOutput(io.Discard)
	rig, err := NewRig(2, 100, 3600, 1)
	if err != nil {
		fmt.Fprintln(w, "case 0\nrig-error")
		return
	}
	defer rig.Stop(true)
	rig.Settings.RegisterPattern(name.New().Sanctuary("c18s").Realm("*").Swamp("*"), true, 3600, &settings.FileSystemSettings{WriteIntervalSec: 1, MaxFileSizeByte: 8192})
	hy := rig.Zeus.GetHydra()
	runID := time.Now().UnixNano()
	for r := 0; r < rounds; r++ {
		swName := name.New().Sanctuary("c18s").Realm("round").Swamp(fmt.Sprintf("%d-%d", r, runID))
		var mu sync.Mutex
		var log []string
		slots := map[*hydra.SwampWaiter]int{}
		insts := map[swamp.Swamp]int{}
		sn := func(s *hydra.SwampWaiter) int {
			k, ok := slots[s]
			if !ok {
				k = len(slots)
				slots[s] = k
			}
			return k
		}
		in := func(x swamp.Swamp) int {
			k, ok := insts[x]
			if !ok {
				k = len(insts)
				insts[x] = k
			}
			return k
		}
		mapped := func() string {
			if s, ok := hydra.VerifSummonSlot(hy, swName.Get()); ok {
				return strconv.Itoa(sn(s))
			}
			return "-"
		}
		var tmu sync.Mutex
		calls := 0
		counted, alias := map[int]bool{}, map[int]int{}
		verifhook.SetHandler(func(hook string, args ...any) {
			if hook == "swampmap.callback" {
				if n, _ := args[0].(string); n != swName.Get() {
					return
				}
				x, _ := args[1].(swamp.Swamp)
				mu.Lock()
				log = append(log, fmt.Sprintf("callback %d", in(x)))
				mu.Unlock()
				return
			}
			if !strings.HasPrefix(hook, "summon.") || len(args) < 3 {
				return
			}
			ctx, _ := args[0].(context.Context)
			n, _ := args[1].(string)
			if ctx == nil || n != swName.Get() {
				return
			}
			t, ok := ctx.Value(c18Key{}).(int)
			if !ok {
				return
			}
			slot, _ := args[2].(*hydra.SwampWaiter)
			mu.Lock()
			defer mu.Unlock()
			// a call whose deferred exit finds its instance closed summons again with the same context: that second
			// SummonSwamp is another entrant of the protocol and gets a call number of its own
			if hook == "summon.counted" {
				if counted[t] {
					tmu.Lock()
					calls++
					alias[t] = calls
					tmu.Unlock()
				}
				counted[t] = true
			}
			if a, ok := alias[t]; ok {
				t = a
			}
			switch strings.TrimPrefix(hook, "summon.") {
			case "counted":
				c, _ := args[3].(int32)
				log = append(log, fmt.Sprintf("count %d %d %d %s", t, sn(slot), c, mapped()))
			case "uncounted":
				c, _ := args[3].(int32)
				log = append(log, fmt.Sprintf("uncount %d %d %d %s", t, sn(slot), c, mapped()))
			case "wait":
				log = append(log, fmt.Sprintf("wait %d %d", t, sn(slot)))
			case "ready.set":
				log = append(log, fmt.Sprintf("ready %d %d", t, sn(slot)))
			case "ready.clear":
				log = append(log, fmt.Sprintf("unready %d %d", t, sn(slot)))
			case "giveup.locked":
				log = append(log, fmt.Sprintf("giveup %d %d", t, sn(slot)))
			case "create":
				log = append(log, fmt.Sprintf("create %d", t))
			case "stored":
				x, _ := args[3].(swamp.Swamp)
				log = append(log, fmt.Sprintf("stored %d %d", t, in(x)))
			case "found":
				x, _ := args[3].(swamp.Swamp)
				log = append(log, fmt.Sprintf("found %d %d", t, in(x)))
			}
		})
		var wg sync.WaitGroup
		var closeMu sync.Mutex // one Close / Destroy at a time (their mutual races are not this property's subject)
		var old []swamp.Swamp
		for g := 0; g < gor; g++ {
			wg.Add(1)
			seed := rng.Int63()
			go func(seed int64) {
				defer wg.Done()
				lr := rand.New(rand.NewSource(seed))
				for i := 0; i < iters; i++ {
					tmu.Lock()
					calls++
					t := calls
					tmu.Unlock()
					base := context.WithValue(context.Background(), c18Key{}, t)
					ctx, cancel := context.WithCancel(base)
					switch lr.Intn(6) {
					case 0:
						cancel()
					case 1:
						cancel()
						ctx, cancel = context.WithTimeout(base, time.Duration(50+lr.Intn(1500))*time.Microsecond)
					}
					sw, err := hy.SummonSwamp(ctx, 1, swName)
					cancel()
					if err != nil || sw == nil {
						continue
					}
					sw.BeginVigil()
					if lr.Intn(3) == 0 {
						time.Sleep(time.Duration(lr.Intn(200)) * time.Microsecond)
					}
					sw.CeaseVigil()
					switch lr.Intn(8) {
					case 0, 1:
						closeMu.Lock()
						sw.Close()
						closeMu.Unlock()
						tmu.Lock()
						old = append(old, sw)
						tmu.Unlock()
					case 2:
						closeMu.Lock()
						sw.Destroy()
						closeMu.Unlock()
						tmu.Lock()
						old = append(old, sw)
						tmu.Unlock()
					case 3:
						// a stale handle: Destroy() / Close() on an instance that was closed earlier
						tmu.Lock()
						var h swamp.Swamp
						if len(old) > 0 {
							h = old[lr.Intn(len(old))]
						}
						tmu.Unlock()
						if h != nil {
							closeMu.Lock()
							if lr.Intn(2) == 0 {
								h.Destroy()
							} else {
								h.Close()
							}
							closeMu.Unlock()
						}
					}
				}
			}(seed)
		}
		done := make(chan struct{})
		go func() { wg.Wait(); close(done) }()
		hung := false
		select {
		case <-done:
		case <-time.After(HxScale(60 * time.Second)):
			hung = true
		}
		verifhook.SetHandler(nil)
		fmt.Fprintf(w, "case %d\n", r)
		mu.Lock()
		for _, l := range log {
			fmt.Fprintln(w, l)
		}
		if hung {
			fmt.Fprintln(w, "hang")
		}
		mu.Unlock()
		if hung {
			return
		}
	}
}
