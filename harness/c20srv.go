package main

// C20, the glue between the two name packages.
//
//	srv <s> <r> <sw> <i1> <i2> <depth> <per>
//	    raw requests through the real gateway of the in-process server (NewRig(depth, per)): Set under island i1, close the
//	    swamp, list the swamp folders on disk, IsSwampExist under island i2 (another RPC, another island), Set under i2,
//	    close, list, IsSwampExist under a third island, Set with a FOUR-part name, list.
//	wire <s> <r> <sw> <N>
//	    the real SDK (client with N islands) against a recording server: every method of the Hydraidego interface is
//	    called through reflection with synthesised arguments; the reply lists the IslandIDs that were put on the wire
//	    next to this swamp name.

import (
	"context"
	"fmt"
	"net"
	"os"
	"path/filepath"
	"reflect"
	"sort"
	"strconv"
	"strings"
	"sync"
	"time"

	srvname "github.com/hydraide/hydraide/app/name"
	"github.com/hydraide/hydraide/sdk/go/hydraidego/v3"
	"github.com/hydraide/hydraide/sdk/go/hydraidego/v3/hydraidepbgo"
	sdkname "github.com/hydraide/hydraide/sdk/go/hydraidego/v3/name"
	"google.golang.org/grpc"
	"google.golang.org/grpc/codes"
	"google.golang.org/grpc/credentials/insecure"
	"google.golang.org/grpc/status"
	"google.golang.org/grpc/test/bufconn"
	"google.golang.org/protobuf/reflect/protoreflect"
	"google.golang.org/protobuf/reflect/protoregistry"
	"google.golang.org/protobuf/types/dynamicpb"
)

// ---- srv ---------------------------------------------------------------------------------------

type c20SrvRig struct {
	rig        *Rig
	depth, per int
}

func (c *c20SrvRig) get(depth, per int) (*Rig, error) {
	if c.rig != nil && (c.depth != depth || c.per != per) {
		c.rig.Stop(true)
		c.rig = nil
	}
	if c.rig == nil {
		r, err := NewRig(depth, per, 600, 0)
		if err != nil {
			return nil, err
		}
		c.rig, c.depth, c.per = r, depth, per
	}
	return c.rig, nil
}

func (c *c20SrvRig) stop() {
	if c.rig != nil {
		c.rig.Stop(true)
		c.rig = nil
	}
}

// c20Folders lists the swamp folders under the data root ("/r" + path relative to it): a V2 swamp is the file
// <folder>.hyd, a V1 swamp is a directory of chunk files.
func c20Folders(rig *Rig) map[string]bool {
	root := rig.Settings.GetHydraAbsDataFolderPath()
	out := map[string]bool{}
	_ = filepath.Walk(root, func(p string, info os.FileInfo, err error) error {
		if err != nil || info.IsDir() {
			return nil
		}
		rel, e := filepath.Rel(root, p)
		if e != nil {
			return nil
		}
		if strings.HasSuffix(rel, ".hyd") {
			out["/r/"+filepath.ToSlash(strings.TrimSuffix(rel, ".hyd"))] = true
		} else {
			out["/r/"+filepath.ToSlash(filepath.Dir(rel))] = true
		}
		return nil
	})
	return out
}

func c20NewFolders(before, now map[string]bool) string {
	var l []string
	for p := range now {
		if !before[p] {
			l = append(l, p)
		}
	}
	island := func(p string) uint64 {
		f := strings.Split(p, "/")
		if len(f) > 2 {
			v, _ := strconv.ParseUint(f[2], 10, 64)
			return v
		}
		return 0
	}
	sort.Slice(l, func(a, b int) bool {
		if island(l[a]) != island(l[b]) {
			return island(l[a]) < island(l[b])
		}
		return l[a] < l[b]
	})
	if len(l) == 0 {
		return "-"
	}
	return strings.Join(l, ",")
}

// c20Close flushes and closes the swamp if it is open (what the idle timer does), and waits until hydra forgot it.
func c20Close(rig *Rig, full string) bool {
	h := rig.Zeus.GetHydra()
	live := func() bool {
		for _, n := range h.ListActiveSwamps() {
			if n == full {
				return true
			}
		}
		return false
	}
	if !live() {
		return true
	}
	done := make(chan struct{})
	go func() {
		defer close(done)
		if sw, err := h.SummonSwamp(context.Background(), 1, srvname.Load(full)); err == nil {
			sw.Close()
		}
	}()
	select {
	case <-done:
	case <-time.After(HxScale(20 * time.Second)):
		return false
	}
	deadline := time.Now().Add(HxScale(20 * time.Second))
	for live() {
		if time.Now().After(deadline) {
			return false
		}
		time.Sleep(5 * time.Millisecond)
	}
	return true
}

func c20Code(err error) string {
	if err == nil {
		return "ok"
	}
	if s, ok := status.FromError(err); ok {
		if s.Code() == codes.InvalidArgument {
			return "refused"
		}
		return "err:" + s.Code().String()
	}
	return "err"
}

func c20Srv(c *c20SrvRig, s, r, sw string, i1, i2 uint64, depth, per int) string {
	rig, err := c.get(depth, per)
	if err != nil {
		fmt.Fprintln(os.Stderr, "c20 srv rig:", err)
		return "err rig"
	}
	ctx, cancel := context.WithTimeout(context.Background(), HxScale(60*time.Second))
	defer cancel()
	full := s + "/" + r + "/" + sw
	before := c20Folders(rig)
	set := func(island uint64, nm, key string) string {
		resp, err := rig.GW.Set(ctx, &hydraidepbgo.SetRequest{Swamps: []*hydraidepbgo.SwampRequest{{
			IslandID: island, SwampName: nm, CreateIfNotExist: true, Overwrite: true,
			KeyValues: []*hydraidepbgo.KeyValuePair{{Key: key, StringVal: &key}}}}})
		if err == nil && resp == nil {
			return "err:nil"
		}
		return c20Code(err)
	}
	exist := func(island uint64) string {
		resp, err := rig.GW.IsSwampExist(ctx, &hydraidepbgo.IsSwampExistRequest{IslandID: island, SwampName: full})
		if err != nil {
			return c20Code(err)
		}
		return strconv.FormatBool(resp.GetIsExist())
	}
	set1 := set(i1, full, "k1")
	if !c20Close(rig, full) {
		return "timeout close"
	}
	p1 := c20NewFolders(before, c20Folders(rig))
	ex2 := exist(i2)
	set2 := set(i2, full, "k2")
	if !c20Close(rig, full) {
		return "timeout close"
	}
	p2 := c20NewFolders(before, c20Folders(rig))
	ex3 := exist(i1 + i2 + 1)
	four := set(i1, full+"/x", "k3")
	if !c20Close(rig, full) {
		return "timeout close"
	}
	p3 := c20NewFolders(before, c20Folders(rig))
	return fmt.Sprintf("set1=%s p1=%s ex2=%s set2=%s p2=%s ex3=%s four=%s p3=%s", set1, p1, ex2, set2, p2, ex3, four, p3)
}

// ---- wire --------------------------------------------------------------------------------------

type c20Wire struct {
	mu      sync.Mutex
	islands map[string]map[uint64]bool // swamp name -> IslandIDs seen next to it
	methods map[string]bool            // gRPC methods that carried the probed name
	hits    int                        // requests that carried a (name, island) pair
	srv     *grpc.Server
	conn    *grpc.ClientConn
}

// collect walks a request message: wherever a message has both an IslandID and a SwampName field, the pair is recorded.
func (c *c20Wire) collect(method string, m protoreflect.Message) {
	d := m.Descriptor()
	fi, fn := d.Fields().ByName("IslandID"), d.Fields().ByName("SwampName")
	if fi != nil && fn != nil && fi.Kind() == protoreflect.Uint64Kind && fn.Kind() == protoreflect.StringKind && !fn.IsList() {
		nm := m.Get(fn).String()
		c.mu.Lock()
		if c.islands[nm] == nil {
			c.islands[nm] = map[uint64]bool{}
		}
		c.islands[nm][m.Get(fi).Uint()] = true
		c.methods[method+" "+nm] = true
		c.hits++
		c.mu.Unlock()
	}
	m.Range(func(fd protoreflect.FieldDescriptor, v protoreflect.Value) bool {
		if fd.Kind() != protoreflect.MessageKind {
			return true
		}
		switch {
		case fd.IsMap():
			if fd.MapValue().Kind() == protoreflect.MessageKind {
				v.Map().Range(func(_ protoreflect.MapKey, mv protoreflect.Value) bool { c.collect(method, mv.Message()); return true })
			}
		case fd.IsList():
			for i := 0; i < v.List().Len(); i++ {
				c.collect(method, v.List().Get(i).Message())
			}
		default:
			c.collect(method, v.Message())
		}
		return true
	})
}

func c20NewWire() (*c20Wire, error) {
	c := &c20Wire{islands: map[string]map[uint64]bool{}, methods: map[string]bool{}}
	lis := bufconn.Listen(1 << 20)
	c.srv = grpc.NewServer(grpc.UnknownServiceHandler(func(_ any, stream grpc.ServerStream) error {
		full, _ := grpc.MethodFromServerStream(stream) // "/hydraidepbgo.HydraideService/Set"
		parts := strings.Split(strings.TrimPrefix(full, "/"), "/")
		if len(parts) != 2 {
			return status.Error(codes.Unimplemented, "?")
		}
		sd, err := protoregistry.GlobalFiles.FindDescriptorByName(protoreflect.FullName(parts[0]))
		if err != nil {
			return status.Error(codes.Unimplemented, "?")
		}
		svc, ok := sd.(protoreflect.ServiceDescriptor)
		if !ok {
			return status.Error(codes.Unimplemented, "?")
		}
		md := svc.Methods().ByName(protoreflect.Name(parts[1]))
		if md == nil {
			return status.Error(codes.Unimplemented, "?")
		}
		in := dynamicpb.NewMessage(md.Input())
		if err := stream.RecvMsg(in); err != nil {
			return err
		}
		c.collect(parts[1], in)
		if md.IsStreamingServer() {
			return nil // an empty stream
		}
		return stream.SendMsg(dynamicpb.NewMessage(md.Output()))
	}))
	go func() { _ = c.srv.Serve(lis) }()
	conn, err := grpc.NewClient("passthrough:///c20wire",
		grpc.WithContextDialer(func(ctx context.Context, _ string) (net.Conn, error) { return lis.DialContext(ctx) }),
		grpc.WithTransportCredentials(insecure.NewCredentials()))
	if err != nil {
		c.srv.Stop()
		return nil, err
	}
	c.conn = conn
	return c, nil
}

func (c *c20Wire) stop() {
	_ = c.conn.Close()
	c.srv.Stop()
}

type c20CatalogModel struct {
	Key   string `hydraide:"key"`
	Value string `hydraide:"value"`
}
type c20ProfileModel struct {
	Name string
	Age  int64
}

var (
	c20CtxT  = reflect.TypeOf((*context.Context)(nil)).Elem()
	c20NameT = reflect.TypeOf((*sdkname.Name)(nil)).Elem()
	c20AnyT  = reflect.TypeOf((*any)(nil)).Elem()
	c20TimeT = reflect.TypeOf(time.Time{})
)

// c20Synth builds a value of type t: the probed name wherever a name is wanted, `model` wherever an `any` is wanted,
// one element in every slice, small non-zero scalars; pointers to structs are filled down to nesting depth `fill`, nil below.
func c20Synth(t reflect.Type, ctx context.Context, nm sdkname.Name, model any, fill int, depth int) reflect.Value {
	switch {
	case t == c20CtxT:
		return reflect.ValueOf(ctx)
	case t == c20NameT:
		return reflect.ValueOf(nm)
	case t == c20AnyT:
		if model == nil {
			return reflect.Zero(t)
		}
		v := reflect.New(t).Elem()
		v.Set(reflect.ValueOf(model))
		return v
	case t == c20TimeT:
		return reflect.ValueOf(time.Unix(1900000000, 0).UTC())
	}
	if depth > 4 {
		return reflect.Zero(t)
	}
	switch t.Kind() {
	case reflect.String:
		return reflect.ValueOf("k1").Convert(t)
	case reflect.Bool:
		return reflect.ValueOf(true).Convert(t)
	case reflect.Int, reflect.Int8, reflect.Int16, reflect.Int32, reflect.Int64:
		return reflect.ValueOf(int64(1)).Convert(t)
	case reflect.Uint, reflect.Uint8, reflect.Uint16, reflect.Uint32, reflect.Uint64:
		return reflect.ValueOf(uint64(1)).Convert(t)
	case reflect.Float32, reflect.Float64:
		return reflect.ValueOf(1.0).Convert(t)
	case reflect.Slice:
		s := reflect.MakeSlice(t, 1, 1)
		s.Index(0).Set(c20Synth(t.Elem(), ctx, nm, model, fill+1, depth))
		return s
	case reflect.Map:
		m := reflect.MakeMap(t)
		if t.Key().Kind() == reflect.String {
			k := reflect.ValueOf("Value").Convert(t.Key())
			if t.Elem() == c20AnyT {
				v := reflect.New(t.Elem()).Elem()
				v.Set(reflect.ValueOf("v"))
				m.SetMapIndex(k, v)
			} else {
				m.SetMapIndex(k, c20Synth(t.Elem(), ctx, nm, model, fill, depth+1))
			}
		}
		return m
	case reflect.Ptr:
		if t == reflect.TypeOf((*hydraidego.PatchBuilder)(nil)) {
			return reflect.ValueOf(hydraidego.NewPatchBuilder("k1").Set("Value", "v"))
		}
		if depth >= fill || t.Elem().Kind() != reflect.Struct {
			return reflect.Zero(t)
		}
		p := reflect.New(t.Elem())
		c20Fill(p.Elem(), ctx, nm, model, fill, depth+1)
		// operation builders (PatchExpiredOps, …): one `Set("Value", "v")`
		if set := p.MethodByName("Set"); set.IsValid() && set.Type().NumIn() == 2 && set.Type().In(0).Kind() == reflect.String && set.Type().In(1) == c20AnyT {
			func() {
				defer func() { _ = recover() }()
				set.Call([]reflect.Value{reflect.ValueOf("Value"), reflect.ValueOf(any("v"))})
			}()
		}
		return p
	case reflect.Struct:
		v := reflect.New(t).Elem()
		c20Fill(v, ctx, nm, model, fill, depth+1)
		return v
	case reflect.Func:
		return reflect.MakeFunc(t, func([]reflect.Value) []reflect.Value {
			out := make([]reflect.Value, t.NumOut())
			for i := range out {
				out[i] = reflect.Zero(t.Out(i))
			}
			return out
		})
	}
	return reflect.Zero(t)
}

func c20Fill(v reflect.Value, ctx context.Context, nm sdkname.Name, model any, fill, depth int) {
	for i := 0; i < v.NumField(); i++ {
		f := v.Field(i)
		if !f.CanSet() {
			continue
		}
		if f.Kind() == reflect.Ptr && f.Type().Elem().Kind() != reflect.Struct {
			continue // optional scalars stay unset
		}
		f.Set(c20Synth(f.Type(), ctx, nm, model, fill, depth))
	}
}

func c20WireOp(s, r, sw string, N uint64) string {
	w, err := c20NewWire()
	if err != nil {
		return "err wire"
	}
	defer w.stop()
	nm := sdkname.New().Sanctuary(s).Realm(r).Swamp(sw)
	h := hydraidego.New(&miscClient{svc: hydraidepbgo.NewHydraideServiceClient(w.conn), allIslands: N})
	hv := reflect.ValueOf(h)
	models := []any{&c20CatalogModel{Key: "k1", Value: "v"}, c20CatalogModel{Key: "k1", Value: "v"}, &c20ProfileModel{Name: "n", Age: 3}, nil}
	called := 0
	for mi := 0; mi < hv.NumMethod(); mi++ {
		mt := hv.Type().Method(mi)
		m := hv.Method(mi)
		w.mu.Lock()
		before := w.hits
		w.mu.Unlock()
	variants:
		for _, fill := range []int{0, 1, 2, 3} {
			for _, model := range models {
				func() {
					defer func() { _ = recover() }()
					ctx, cancel := context.WithTimeout(context.Background(), HxScale(5*time.Second))
					defer cancel()
					args := make([]reflect.Value, m.Type().NumIn())
					for a := range args {
						args[a] = c20Synth(m.Type().In(a), ctx, nm, model, fill, 0)
					}
					outs := m.Call(args)
					// builders (CatalogPatch) only send on Exec
					for _, o := range outs {
						if o.Kind() == reflect.Ptr && !o.IsNil() {
							if ex := o.MethodByName("Exec"); ex.IsValid() && ex.Type().NumIn() == 0 {
								if set := o.MethodByName("Set"); set.IsValid() && set.Type().NumIn() == 2 {
									set.Call([]reflect.Value{reflect.ValueOf("Value"), reflect.ValueOf(any("v"))})
								}
								ex.Call(nil)
							}
						}
					}
				}()
				w.mu.Lock()
				n := w.hits
				w.mu.Unlock()
				if n > before {
					called++
					break variants
				}
			}
		}
		if w.hits == before && os.Getenv("C20_WIRE_DEBUG") != "" {
			fmt.Fprintln(os.Stderr, "c20 wire: not reached:", mt.Name)
		}
	}
	w.mu.Lock()
	defer w.mu.Unlock()
	var isl []uint64
	for i := range w.islands[nm.Get()] {
		isl = append(isl, i)
	}
	sort.Slice(isl, func(a, b int) bool { return isl[a] < isl[b] })
	var strs []string
	for _, i := range isl {
		strs = append(strs, strconv.FormatUint(i, 10))
	}
	rpcs := map[string]bool{}
	for k := range w.methods {
		rpcs[strings.Split(k, " ")[0]] = true
	}
	fmt.Fprintf(os.Stderr, "c20 wire: %d SDK methods put the name on the wire, %d distinct RPCs\n", called, len(rpcs))
	reached := "ok"
	if called < c20WireMin {
		reached = "few:" + strconv.Itoa(called)
	}
	if len(strs) == 0 {
		strs = []string{"-"}
	}
	return "islands=" + strings.Join(strs, ",") + " reached=" + reached
}

// the number of SDK methods the synthesised arguments must get onto the wire (60 of the 65 carry a swamp name: all but Heartbeat, Lock, Unlock,
// RegisterSwamp, DeRegisterSwamp); below it the op reports `few` instead of passing on thin evidence
const c20WireMin = 55
