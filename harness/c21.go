package main

// Domain C21: the real settings registry (app/core/settings) — overlapping patterns, repeated
// lookups (Go's map iteration is randomised per `range`, so 300 lookups of one name expose an
// order-dependent result), restart through a second settings.New on the same root.
//
// ops:   case N                        fresh root + settings.New
//        reg S R W M|P IDLE WI SIZE    RegisterPattern (M = in-memory, P = persistent)
//        dereg S R W
//        get S R W                     300 × GetBySwampName
//        regtorn S R W M|P IDLE WI SIZE  the same registration while file writes are cut short after 1 byte (RLIMIT_FSIZE)
//        restart                       settings.New on the same root; later ops use the new object
//        live S R W                    hydra + gateway on top of the CURRENT settings object: Set one new key into the swamp,
//                                      count its treasures, close it, ask whether it exists on disk — the settings the swamp
//                                      was created with are what GetBySwampName resolves at that moment
// reply: case N | ok | res <sorted distinct results>   result = S/R/W|M|idle|wi|size | live count=N disk=BOOL
//
// Every case keeps the number of distinct pattern keys ≤ 8 so that the Go map stays a single
// group: each entry is then the first one visited with probability ≥ 1/8 per lookup, and the
// chance that 300 lookups miss a possible result is below 1e-16.

import (
	"bufio"
	"fmt"
	"io"
	"log/slog"
	"math/rand"
	"os"
	"os/signal"
	"sort"
	"strconv"
	"strings"
	"syscall"
	"time"

	"context"

	"github.com/hydraide/hydraide/app/core/filesystem"
	"github.com/hydraide/hydraide/app/core/settings"
	"github.com/hydraide/hydraide/app/core/settings/setting"
	"github.com/hydraide/hydraide/app/core/zeus"
	"github.com/hydraide/hydraide/app/name"
	"github.com/hydraide/hydraide/app/server/gateway"
	"github.com/hydraide/hydraide/sdk/go/hydraidego/v3/hydraidepbgo"
)

func init() { Register("C21", Domain{Gen: c21Gen, Run: c21Run}) }

const c21Lookups = 300

var (
	c21Sanct = []string{"a", "a", "a", "b", "*"}
	c21Realm = []string{"x", "y", "*", "*"}
	c21Swamp = []string{"p", "q", "*", "*"}
	// parts that differ only in letter case, or that are a prefix of one another: ComparePattern is an exact comparison
	c21SanctC = []string{"ab", "ab", "aB", "a", "*"}
	c21RealmC = []string{"xy", "xY", "x", "*", "*"}
	c21SwampC = []string{"pq", "Pq", "pqr", "*", "*"}
)

func c21Pick(rng *rand.Rand, l []string) string { return l[rng.Intn(len(l))] }

func c21Gen(rng *rand.Rand, tier string, w *bufio.Writer) {
	cases := 150
	if tier == "thorough" {
		cases = 2500
	}
	// corpus: DESIGN §9 F21 (exact persistent + realm-wildcard in-memory), and the four shapes at once
	fmt.Fprintln(w, "case 0")
	fmt.Fprintln(w, "reg a x p P 5 1 8192")
	fmt.Fprintln(w, "reg a * p M 5 0 0")
	fmt.Fprintln(w, "get a x p")
	fmt.Fprintln(w, "restart")
	fmt.Fprintln(w, "get a x p")
	fmt.Fprintln(w, "case 1")
	fmt.Fprintln(w, "reg a * * P 9 9 9")
	fmt.Fprintln(w, "reg a * p M 8 0 0")
	fmt.Fprintln(w, "reg a x * P 7 7 7")
	fmt.Fprintln(w, "reg a x p M 6 0 0")
	for _, n := range []string{"a x p", "a y p", "a x q", "a y q", "b x p", "a * p", "a x *"} {
		fmt.Fprintln(w, "get "+n)
	}
	fmt.Fprintln(w, "restart")
	for _, n := range []string{"a x p", "a y p", "a x q", "a y q"} {
		fmt.Fprintln(w, "get "+n)
	}
	// corpus: re-registration quirk (persistent re-registration with unchanged numbers over an
	// in-memory entry is ignored) and plain overwrite
	fmt.Fprintln(w, "case 2")
	fmt.Fprintln(w, "reg a x p M 4 0 0")
	fmt.Fprintln(w, "reg a x p P 4 0 0")
	fmt.Fprintln(w, "get a x p")
	fmt.Fprintln(w, "reg a x p P 4 2 4096")
	fmt.Fprintln(w, "get a x p")
	fmt.Fprintln(w, "reg a x p P 4 2 4096")
	fmt.Fprintln(w, "reg a x p M 3 0 0")
	fmt.Fprintln(w, "get a x p")
	fmt.Fprintln(w, "dereg a x p")
	fmt.Fprintln(w, "get a x p")
	// corpus: two patterns are persisted, the save of a third one is torn, restart
	fmt.Fprintln(w, "case 3")
	fmt.Fprintln(w, "reg a x p M 4 0 0")
	fmt.Fprintln(w, "reg a * q P 3 2 4096")
	fmt.Fprintln(w, "regtorn b y p P 2 1 8192")
	fmt.Fprintln(w, "get b y p")
	fmt.Fprintln(w, "restart")
	fmt.Fprintln(w, "get a x p")
	fmt.Fprintln(w, "get a y q")
	fmt.Fprintln(w, "get b y p")
	// corpus: the save of a registration is torn, the client registers the same pattern again (acknowledged), restart
	fmt.Fprintln(w, "case 4")
	fmt.Fprintln(w, "reg a x q M 4 0 0")
	fmt.Fprintln(w, "regtorn b y p P 2 1 8192")
	fmt.Fprintln(w, "reg b y p P 2 1 8192")
	fmt.Fprintln(w, "restart")
	fmt.Fprintln(w, "get b y p")
	fmt.Fprintln(w, "get a x q")
	// corpus: letter case and prefixes in every part
	fmt.Fprintln(w, "case 5")
	fmt.Fprintln(w, "reg ab xy pq M 4 0 0")
	fmt.Fprintln(w, "reg ab xY * P 3 1 4096")
	fmt.Fprintln(w, "reg aB * pq P 2 1 8192")
	for _, n := range []string{"ab xy pq", "ab xY pq", "ab XY pq", "ab xy PQ", "ab xy Pq", "aB xy pq", "AB xy pq", "ab x pq", "ab xy p", "a xy pq"} {
		fmt.Fprintln(w, "get "+n)
	}
	// corpus: the swamp is created with the settings registered AT THAT MOMENT: in-memory, re-registered persistent, again in-memory
	fmt.Fprintln(w, "case 6")
	fmt.Fprintln(w, "reg a x p M 4 0 0")
	fmt.Fprintln(w, "live a x p")
	fmt.Fprintln(w, "reg a x p P 4 0 8192")
	fmt.Fprintln(w, "live a x p")
	fmt.Fprintln(w, "live a x p")
	fmt.Fprintln(w, "reg a x p M 3 0 0")
	fmt.Fprintln(w, "live a x p")
	fmt.Fprintln(w, "reg a * * P 3 1 8192")
	fmt.Fprintln(w, "live a x p")
	fmt.Fprintln(w, "live a y q")
	fmt.Fprintln(w, "dereg a x p")
	fmt.Fprintln(w, "live a x p")
	fmt.Fprintln(w, "restart")
	fmt.Fprintln(w, "live a x p")
	for c := 7; c < cases+7; c++ {
		fmt.Fprintf(w, "case %d\n", c)
		sanct, realm, swamp := c21Sanct, c21Realm, c21Swamp
		if rng.Intn(3) == 0 {
			sanct, realm, swamp = c21SanctC, c21RealmC, c21SwampC
		}
		keys := []string{}
		has := map[string]bool{}
		pickKey := func() string {
			if len(keys) >= 8 || (len(keys) > 0 && rng.Intn(4) == 0) {
				return keys[rng.Intn(len(keys))]
			}
			k := c21Pick(rng, sanct) + " " + c21Pick(rng, realm) + " " + c21Pick(rng, swamp)
			if !has[k] {
				has[k] = true
				keys = append(keys, k)
			}
			return k
		}
		name := func() string {
			return c21Pick(rng, sanct) + " " + c21Pick(rng, realm[:3]) + " " + c21Pick(rng, swamp[:3])
		}
		reg := func() {
			k := pickKey()
			idle := 1 + rng.Intn(4)
			if rng.Intn(3) == 0 {
				fmt.Fprintf(w, "reg %s M %d 0 0\n", k, idle)
			} else {
				fmt.Fprintf(w, "reg %s P %d %d %d\n", k, idle, rng.Intn(3), []int{0, 4096, 8192}[rng.Intn(3)])
			}
		}
		n := 5 + rng.Intn(16)
		for i := 0; i < 2+rng.Intn(4); i++ {
			reg()
		}
		for i := 0; i < n; i++ {
			switch x := rng.Intn(20); {
			case x < 8:
				reg()
			case x < 10:
				if len(keys) > 0 {
					fmt.Fprintf(w, "dereg %s\n", keys[rng.Intn(len(keys))])
				} else {
					fmt.Fprintf(w, "dereg %s\n", name())
				}
			case x < 11:
				if rng.Intn(3) == 0 {
					k := pickKey()
					idle := 1 + rng.Intn(4)
					fmt.Fprintf(w, "regtorn %s P %d 1 4096\n", k, idle)
					switch rng.Intn(3) {
					case 0: // the client retries the very same registration
						fmt.Fprintf(w, "reg %s P %d 1 4096\n", k, idle)
					case 1: // …or some other operation touches the file first
						reg()
					}
				}
				fmt.Fprintln(w, "restart")
			case x < 13:
				fmt.Fprintf(w, "live %s %s %s\n", c21Pick(rng, sanct[:4]), c21Pick(rng, realm[:3]), c21Pick(rng, swamp[:3]))
			default:
				fmt.Fprintf(w, "get %s\n", name())
			}
		}
		// closing phase: the same names before and after a restart
		var ns []string
		for i := 0; i < 3; i++ {
			ns = append(ns, name())
		}
		for _, x := range ns {
			fmt.Fprintf(w, "get %s\n", x)
		}
		fmt.Fprintln(w, "restart")
		for _, x := range ns {
			fmt.Fprintf(w, "get %s\n", x)
		}
	}
}

func c21Render(s setting.Setting) string {
	p := s.GetPattern()
	t := "P"
	if s.GetSwampType() == setting.InMemorySwamp {
		t = "M"
	}
	return fmt.Sprintf("%s/%s/%s|%s|%d|%d|%d", p.GetSanctuaryID(), p.GetRealmName(), p.GetSwampName(), t,
		int64(s.GetCloseAfterIdle()/time.Second), int64(s.GetWriteInterval()/time.Second), s.GetMaxFileSizeByte())
}

func c21Run(in *bufio.Scanner, w *bufio.Writer) {
	slog.SetDefault(slog.New(slog.NewTextHandler(io.Discard, nil)))
	var st settings.Settings
	var zs zeus.Zeus
	var gw *gateway.Gateway
	liveKeys := 0
	stopHydra := func() {
		if zs != nil {
			zs.StopHydra()
			zs, gw = nil, nil
		}
	}
	defer stopHydra()
	root := ""
	cleanup := func() {
		stopHydra()
		if root != "" {
			_ = os.RemoveAll(root)
			root = ""
		}
	}
	defer cleanup()
	for in.Scan() {
		line := in.Text()
		f := strings.Split(line, " ")
		func() {
			defer func() {
				if r := recover(); r != nil {
					fmt.Fprintln(w, "panic")
				}
			}()
			switch {
			case f[0] == "case":
				cleanup()
				d, err := os.MkdirTemp("", "hv-c21-")
				if err != nil {
					fmt.Fprintln(w, "err mkdir")
					return
				}
				root = d
				_ = os.Setenv("HYDRAIDE_ROOT_PATH", root)
				st = settings.New(3, 2000)
				fmt.Fprintln(w, line)
			case st == nil:
				fmt.Fprintln(w, "bad-op")
			case f[0] == "reg" && len(f) == 8:
				idle, e1 := strconv.ParseInt(f[5], 10, 64)
				wi, e2 := strconv.ParseInt(f[6], 10, 64)
				size, e3 := strconv.ParseInt(f[7], 10, 64)
				if e1 != nil || e2 != nil || e3 != nil || (f[4] != "M" && f[4] != "P") {
					fmt.Fprintln(w, "bad-op")
					return
				}
				// as the gateway does: the pattern object comes from name.Load
				p := name.Load(f[1] + "/" + f[2] + "/" + f[3])
				if f[4] == "M" {
					st.RegisterPattern(p, true, idle, nil)
				} else {
					st.RegisterPattern(p, false, idle, &settings.FileSystemSettings{WriteIntervalSec: wi, MaxFileSizeByte: size})
				}
				fmt.Fprintln(w, "ok")
			case f[0] == "regtorn" && len(f) == 8:
				// the same registration, but the process may write at most ONE byte to any file while it runs
				// (RLIMIT_FSIZE, SIGXFSZ ignored): the save of settings.json fails part-way, as on a crash or a full disk
				idle, e1 := strconv.ParseInt(f[5], 10, 64)
				wi, e2 := strconv.ParseInt(f[6], 10, 64)
				size, e3 := strconv.ParseInt(f[7], 10, 64)
				if e1 != nil || e2 != nil || e3 != nil || (f[4] != "M" && f[4] != "P") {
					fmt.Fprintln(w, "bad-op")
					return
				}
				p := name.Load(f[1] + "/" + f[2] + "/" + f[3])
				signal.Ignore(syscall.SIGXFSZ)
				var old syscall.Rlimit
				_ = syscall.Getrlimit(syscall.RLIMIT_FSIZE, &old)
				_ = syscall.Setrlimit(syscall.RLIMIT_FSIZE, &syscall.Rlimit{Cur: 1, Max: old.Max})
				func() {
					defer func() { _ = syscall.Setrlimit(syscall.RLIMIT_FSIZE, &old) }()
					if f[4] == "M" {
						st.RegisterPattern(p, true, idle, nil)
					} else {
						st.RegisterPattern(p, false, idle, &settings.FileSystemSettings{WriteIntervalSec: wi, MaxFileSizeByte: size})
					}
				}()
				fmt.Fprintln(w, "ok")
			case f[0] == "dereg" && len(f) == 4:
				st.DeregisterPattern(name.Load(f[1] + "/" + f[2] + "/" + f[3]))
				fmt.Fprintln(w, "ok")
			case f[0] == "get" && len(f) == 4:
				seen := map[string]bool{}
				for i := 0; i < c21Lookups; i++ {
					// a fresh name object per lookup, as every request builds one
					seen[c21Render(st.GetBySwampName(name.Load(f[1]+"/"+f[2]+"/"+f[3])))] = true
				}
				var rs []string
				for k := range seen {
					rs = append(rs, k)
				}
				sort.Strings(rs)
				fmt.Fprintln(w, "res "+strings.Join(rs, " "))
			case f[0] == "restart" && len(f) == 1:
				stopHydra()
				st = settings.New(3, 2000)
				fmt.Fprintln(w, "ok")
			case f[0] == "live" && len(f) == 4:
				if zs == nil {
					miscQuiet()
					zs = zeus.New(st, filesystem.New())
					zs.StartHydra()
					gw = &gateway.Gateway{SettingsInterface: st, ZeusInterface: zs, DefaultCloseAfterIdle: 600, DefaultWriteInterval: 0, DefaultFileSize: 8192}
				}
				full := f[1] + "/" + f[2] + "/" + f[3]
				ctx, cancel := context.WithTimeout(context.Background(), HxScale(30*time.Second))
				defer cancel()
				liveKeys++
				key := "k" + strconv.Itoa(liveKeys)
				if _, err := gw.Set(ctx, &hydraidepbgo.SetRequest{Swamps: []*hydraidepbgo.SwampRequest{{IslandID: 1, SwampName: full,
					CreateIfNotExist: true, Overwrite: true, KeyValues: []*hydraidepbgo.KeyValuePair{{Key: key, StringVal: &key}}}}}); err != nil {
					fmt.Fprintln(w, "err set")
					return
				}
				cnt, err := gw.Count(ctx, &hydraidepbgo.CountRequest{Swamps: []*hydraidepbgo.CountRequest_SwampIdentifier{{IslandID: 1, SwampName: full}}})
				if err != nil || len(cnt.GetSwamps()) != 1 {
					fmt.Fprintln(w, "err count")
					return
				}
				if !c20Close(&Rig{Zeus: zs}, full) {
					fmt.Fprintln(w, "timeout close")
					return
				}
				onDisk, err := zs.GetHydra().IsExistSwamp(1, name.Load(full))
				if err != nil {
					fmt.Fprintln(w, "err exist")
					return
				}
				fmt.Fprintf(w, "live count=%d disk=%v\n", cnt.GetSwamps()[0].GetCount(), onDisk)
			default:
				fmt.Fprintln(w, "bad-op")
			}
		}()
	}
}
