package main

// Domain C17: forced schedules on the real vigil (app/core/hydra/swamp/vigil) through the two
// hook points `vigil.dec` (CeaseVigil: after the decrement, before Broadcast) and
// `vigil.checked` (WaitForActiveVigilsClosed: after a positive check, before cond.Wait).
//
// ops:   case N
//        begin          BeginVigil()
//        cease          CeaseVigil() in a goroutine; it is stopped at `vigil.dec` (reply `held`), or —
//                       when the decrement needs the mutex a stopped waiter holds — never gets there
//                       (reply `blocked`, observed by absence of the hook event)
//        bcast          let the oldest stopped CeaseVigil perform its Broadcast and return
//        wait           new waiter W calls WaitForActiveVigilsClosed(); stopped at `vigil.checked`
//                       after its first positive check (reply `checked`), or returns (`done`)
//        wgo W          let the stopped waiter run cond.Wait (ticket, unlock, sleep)
//        expect W       where is W now: done | checked | parked | stuck
//                       stuck = still asleep although the counter is 0 and no CeaseVigil is in
//                       flight (observed with a watchdog; the only way out is a new operation)
//        holdmu / freemu  the harness itself takes / releases the vigil's condition mutex; `cease` and `wait` issued in
//                       between line up on it (`queued`) and get it in that order when it is released (Go hands a
//                       starving mutex over FIFO) — this reaches the window between a waiter's check and its Lock
//        delpanic       gateway.Delete's retry on the freshly mapped instance with a panic injected inside its
//                       DeleteTreasure: reply `panicked=… vig=<counter of the fresh instance afterwards> destroy=done|stuck`
//        destroysave    Destroy() of a swamp instance while a Save (holding its vigil) stands right before its
//                       `s.mu.RLock()`: reply `mu=<state of s.mu when the drain begins> done|stuck`
//        closefail      Close() of a swamp instance whose chronicler fails its final Close(); does a
//                       WaitForGracefulClose caller get its answer?
//        rpcs           a few real gateway RPCs (one of them panics and is recovered), then the
//                       safeops counter and the swamp's vigil counter are read
// reply: <event> v=<counter> hc=<CeaseVigil stopped before Broadcast> bc=<CeaseVigil blocked on the mutex> w=[c|p|d…]
//
// All state in a reply is observed (verif accessors VerifCount / VerifLockFree, goroutine
// completion, hook events); `p` means "entered cond.Wait and has not returned".

import (
	"bufio"
	"context"
	"errors"
	"fmt"
	"math/rand"
	"os"
	"strconv"
	"strings"
	"sync"
	"sync/atomic"
	"time"

	"github.com/hydraide/hydraide/app/core/hydra"
	"github.com/hydraide/hydraide/app/core/hydra/swamp"
	"github.com/hydraide/hydraide/app/core/hydra/swamp/chronicler"
	"github.com/hydraide/hydraide/app/core/hydra/swamp/metadata"
	"github.com/hydraide/hydraide/app/core/hydra/swamp/vigil"
	"github.com/hydraide/hydraide/app/name"
	"github.com/hydraide/hydraide/app/verifhook"
	hydrapb "github.com/hydraide/hydraide/sdk/go/hydraidego/v3/hydraidepbgo"
	"github.com/vmihailenco/msgpack/v5"
)

type c17Waiter struct {
	n     int
	state byte // 'c' stopped at checked, 'p' in cond.Wait, 'd' returned
	done  chan struct{}
}

type c17World struct {
	mu        sync.Mutex
	v         vigil.Vigil
	events    chan string // "dec" | "checked"
	holdCheck bool        // stop the next `vigil.checked`
	checkRel  chan struct{}
	decRel    []chan struct{} // stopped ceasers, oldest first
	passAll   bool            // cleanup: nothing is stopped any more
	waiters   []*c17Waiter
	open      int // begun and not yet ceased (by op count)
	heldC     int
	blockedC  int
	ceaseWG   sync.WaitGroup
	ceaseFin  atomic.Int64 // CeaseVigil calls that have returned
	broken    bool
	muRelease func()   // non-nil: the harness holds the condition mutex
	muQueue   []string // what lined up on it meanwhile: "c" or a waiter number
}

var c17BrokenCases int

func c17NewWorld() *c17World {
	return &c17World{v: vigil.New(), events: make(chan string, 1024)}
}

func (w *c17World) handler(name string, args ...any) {
	if !strings.HasPrefix(name, "vigil.") || len(args) < 1 {
		return
	}
	if v, ok := args[0].(vigil.Vigil); !ok || v != w.v {
		return // another vigil (the server's swamps) or an abandoned case
	}
	var block chan struct{}
	w.mu.Lock()
	pass := w.passAll
	switch name {
	case "vigil.dec":
		if !pass {
			block = make(chan struct{})
			w.decRel = append(w.decRel, block)
		}
	case "vigil.checked":
		if !pass && w.holdCheck {
			w.holdCheck = false
			block = make(chan struct{})
			w.checkRel = block
		}
	}
	w.mu.Unlock()
	if !pass && (name == "vigil.dec" || name == "vigil.checked") {
		select {
		case w.events <- strings.TrimPrefix(name, "vigil."):
		default:
		}
	}
	if block != nil {
		<-block
	}
}

func (w *c17World) waitEvent(want string, d time.Duration) bool {
	deadline := time.After(d)
	for {
		select {
		case ev := <-w.events:
			if ev == want {
				return true
			}
		case <-deadline:
			return false
		}
	}
}

func (w *c17World) timeout() {
	if !w.broken {
		w.broken = true
		c17BrokenCases++
	}
}

func (w *c17World) lockHeld() bool {
	for _, x := range w.waiters {
		if x.state == 'c' {
			return true
		}
	}
	return false
}

func (w *c17World) anyAsleep() bool {
	for _, x := range w.waiters {
		if x.state == 'p' {
			return true
		}
	}
	return false
}

func (w *c17World) waitLockFree(d time.Duration) bool {
	deadline := time.Now().Add(d)
	for !vigil.VerifLockFree(w.v) {
		if time.Now().After(deadline) {
			return false
		}
		time.Sleep(100 * time.Microsecond)
	}
	return true
}

// stateNoLock is state() while the harness itself holds the mutex (the counter is read atomically).
func (w *c17World) stateNoLock() string { return w.state() }

func (w *c17World) state() string {
	var b strings.Builder
	for _, x := range w.waiters {
		b.WriteByte(x.state)
	}
	return fmt.Sprintf("v=%d hc=%d bc=%d w=[%s]", vigil.VerifCount(w.v), w.heldC, w.blockedC, b.String())
}

// afterBroadcast: every waiter that was asleep has been woken; it re-locks, re-checks and either
// returns or (counter still positive) goes back to sleep.
func (w *c17World) afterBroadcast() string {
	var asleep []*c17Waiter
	for _, x := range w.waiters {
		if x.state == 'p' {
			asleep = append(asleep, x)
		}
	}
	if len(asleep) == 0 {
		return ""
	}
	if vigil.VerifCount(w.v) <= 0 {
		deadline := time.After(HxScale(1500 * time.Millisecond)) // returns as soon as they are back
		for _, x := range asleep {
			select {
			case <-x.done:
				x.state = 'd'
			case <-deadline:
				w.timeout()
				return " timeout-unwoken=" + strconv.Itoa(x.n)
			}
		}
		return ""
	}
	for range asleep {
		if !w.waitEvent("checked", HxScale(1500*time.Millisecond)) {
			w.timeout()
			return " timeout-unwoken"
		}
	}
	if !w.waitLockFree(HxScale(time.Second)) {
		w.timeout()
		return " lock-stuck"
	}
	return ""
}

// cleanup lets every goroutine of the case finish: nothing is stopped any more, the counter is
// brought to zero and a final broadcast wakes whoever still sleeps.
func (w *c17World) cleanup() {
	w.mu.Lock()
	w.passAll = true
	if w.checkRel != nil {
		close(w.checkRel)
		w.checkRel = nil
	}
	for _, ch := range w.decRel {
		close(ch)
	}
	w.decRel = nil
	w.mu.Unlock()
	fin := make(chan struct{})
	go func() { w.ceaseWG.Wait(); close(fin) }()
	select {
	case <-fin:
	case <-time.After(HxScale(time.Second)):
	}
	deadline := time.Now().Add(HxScale(400 * time.Millisecond))
	for {
		for vigil.VerifCount(w.v) > 0 {
			w.v.CeaseVigil()
		}
		w.v.BeginVigil()
		w.v.CeaseVigil()
		alive := false
		for _, x := range w.waiters {
			select {
			case <-x.done:
			default:
				alive = true
			}
		}
		if !alive {
			return
		}
		if time.Now().After(deadline) {
			w.timeout() // waiters that cannot be woken at all: abandoned (parked goroutines cost nothing)
			return
		}
		time.Sleep(200 * time.Microsecond)
	}
}

// a chronicler whose final Close() fails
type c17FailingChronicler struct{ chronicler.Chronicler }

func (c17FailingChronicler) Close() error { return errors.New("injected: final flush failed") }

// c17CloseFail closes a real swamp instance (persistent, V2 chronicler in a temp dir) whose chronicler
// reports an error from its final Close(), then asks WaitForGracefulClose with a 500 ms budget.
func c17CloseFail() string {
	dir, err := os.MkdirTemp("", "hvc17-")
	if err != nil {
		return "closefail setup-error"
	}
	defer os.RemoveAll(dir)
	nm := name.New().Sanctuary("c17").Realm("closefail").Swamp("one")
	ch := chronicler.NewV2WithName(dir+"/swamp", 2, nm.Get())
	ch.CreateDirectoryIfNotExists()
	inst := swamp.New(nm, time.Hour, &swamp.FilesystemSettings{ChroniclerInterface: c17FailingChronicler{ch}, WriteInterval: time.Second},
		func(*swamp.Event) {}, func(*swamp.Info) {}, func(name.Name) {}, metadata.NewNoop())
	fin := make(chan struct{})
	go func() { inst.Close(); close(fin) }()
	select {
	case <-fin:
	case <-time.After(HxScale(3 * time.Second)):
		return "closefail close-hang"
	}
	ctx, cancel := context.WithTimeout(context.Background(), HxScale(500*time.Millisecond))
	defer cancel()
	if err := inst.WaitForGracefulClose(ctx); err != nil {
		// make sure the instance's goroutines end anyway
		inst.Destroy()
		return "closefail stuck"
	}
	return "closefail returned"
}

// c17DestroySave: a Save in flight while the swamp is destroyed.  The writer holds its vigil and is stopped in
// SaveFunction right before `s.mu.RLock()`; Destroy() runs up to the beginning of its drain; the state of
// `s.mu` is read there (a destroyer that already holds the write lock can never get its drain: the writer
// it waits for needs the read lock); then the writer is released and both must finish.
func c17DestroySave(restore func()) string {
	dir, err := os.MkdirTemp("", "hvc17-")
	if err != nil {
		return "destroysave setup-error"
	}
	defer os.RemoveAll(dir)
	nm := name.New().Sanctuary("c17").Realm("destroysave").Swamp("one")
	ch := chronicler.NewV2WithName(dir+"/swamp", 2, nm.Get())
	ch.CreateDirectoryIfNotExists()
	inst := swamp.New(nm, time.Hour, &swamp.FilesystemSettings{ChroniclerInterface: ch, WriteInterval: time.Hour},
		func(*swamp.Event) {}, func(*swamp.Info) {}, func(name.Name) {}, metadata.NewNoop())
	atMu, draining := make(chan struct{}, 1), make(chan struct{}, 1)
	relW, relD := make(chan struct{}), make(chan struct{})
	verifhook.SetHandler(func(hook string, args ...any) {
		switch hook {
		case "save.beforeMu":
			if sw, ok := args[0].(swamp.Swamp); ok && sw == inst {
				select {
				case atMu <- struct{}{}:
					<-relW
				default:
				}
			}
		case "destroy.draining":
			if n, _ := args[0].(string); n == nm.Get() {
				select {
				case draining <- struct{}{}:
					<-relD
				default:
				}
			}
		}
	})
	defer restore()
	wDone, dDone := make(chan struct{}), make(chan struct{})
	go func() {
		defer close(wDone)
		inst.BeginVigil()
		defer inst.CeaseVigil()
		t := inst.CreateTreasure("k")
		if t == nil {
			return
		}
		g := t.StartTreasureGuard(true)
		t.SetContentString(g, "v")
		_ = t.Save(g)
		t.ReleaseTreasureGuard(g)
	}()
	release := func() {
		select {
		case <-relW:
		default:
			close(relW)
		}
		select {
		case <-relD:
		default:
			close(relD)
		}
	}
	select {
	case <-atMu:
	case <-time.After(HxScale(3 * time.Second)):
		release()
		return "destroysave timeout no-save"
	}
	go func() { defer close(dDone); inst.Destroy() }()
	select {
	case <-draining:
	case <-time.After(HxScale(3 * time.Second)):
		release()
		return "destroysave timeout no-drain"
	}
	mu := "free"
	if !swamp.VerifSwampMuFree(inst) {
		mu = "held"
	}
	release()
	res := "done"
	for _, c := range []chan struct{}{wDone, dDone} {
		select {
		case <-c:
		case <-time.After(HxScale(1500 * time.Millisecond)):
			res = "stuck" // the watchdog OBSERVES non-termination; the goroutines are abandoned
		}
	}
	return fmt.Sprintf("destroysave mu=%s %s", mu, res)
}

type c17ReqKey struct{}

// c17DelPanic: the retry path of gateway.Delete (the instance the request holds has been destroyed meanwhile and
// the swamp exists again) with a panic inside the DeleteTreasure it runs on the fresh instance — injected at the
// `del.acquired` hook, i.e. with the record guard held; every handler recovers panics.  Whatever the handler
// took on the fresh instance must have been given back: its vigil counter is read, and a Destroy of that
// instance (its drain) must return.
func c17DelPanic(restore func()) string {
	rig, err := NewRig(2, 100, 3600, 1)
	if err != nil {
		return "delpanic rig-err"
	}
	defer rig.Stop(true)
	bg := context.Background()
	sw := name.New().Sanctuary("c17").Realm("handlers").Swamp("retry")
	val, _ := msgpack.Marshal("x")
	put := func(key string) bool {
		r, e := rig.GW.PatchTreasures(bg, &hydrapb.PatchTreasuresRequest{IslandID: 1, SwampName: sw.Get(), CreateIfNotExist: true,
			Patches: []*hydrapb.TreasurePatch{{Key: key, Ops: []*hydrapb.PatchOp{{Op: hydrapb.PatchOp_SET, Path: "a", Value: val}}}}})
		return e == nil && r != nil
	}
	if !put("k1") {
		return "delpanic setup-err"
	}
	held, rel := make(chan struct{}, 1), make(chan struct{})
	var r1 atomic.Value // goroutine id of the request under test
	var armed atomic.Bool
	verifhook.SetHandler(func(hook string, args ...any) {
		switch hook {
		case "summon.leave.dec":
			if ctx, ok := args[0].(context.Context); ok && ctx != nil && ctx.Value(c17ReqKey{}) != nil {
				select {
				case held <- struct{}{}: // the first SummonSwamp of the request: it has its instance, no vigil yet
					<-rel
				default:
				}
			}
		case "del.acquired":
			if g, _ := r1.Load().(string); armed.Load() && g != "" && g == goid() {
				armed.Store(false)
				panic("injected: panic inside DeleteTreasure")
			}
		}
	})
	defer restore()
	done := make(chan struct{})
	go func() {
		defer close(done)
		r1.Store(goid())
		_, _ = rig.GW.Delete(context.WithValue(bg, c17ReqKey{}, 1), &hydrapb.DeleteRequest{Swamps: []*hydrapb.DeleteRequest_SwampKeys{{IslandID: 1, SwampName: sw.Get(), Keys: []string{"k9"}}}})
	}()
	select {
	case <-held:
	case <-time.After(HxScale(3 * time.Second)):
		close(rel)
		return "delpanic timeout no-summon"
	}
	// meanwhile: the last key goes (auto-destroy of the instance the request holds), then the swamp is created again
	_, _ = rig.GW.Delete(bg, &hydrapb.DeleteRequest{Swamps: []*hydrapb.DeleteRequest_SwampKeys{{IslandID: 1, SwampName: sw.Get(), Keys: []string{"k1"}}}})
	if !put("k9") {
		close(rel)
		return "delpanic setup-err"
	}
	fresh, ok := hydra.VerifMappedSwamp(rig.Zeus.GetHydra(), sw.Get())
	if !ok {
		close(rel)
		return "delpanic setup-err no-fresh"
	}
	armed.Store(true)
	close(rel)
	select {
	case <-done:
	case <-time.After(HxScale(3 * time.Second)):
		return "delpanic timeout handler"
	}
	reached := !armed.Load()
	vig := swamp.VerifVigilCount(fresh)
	fin := make(chan struct{})
	go func() { fresh.Destroy(); close(fin) }()
	res := "done"
	select {
	case <-fin:
	case <-time.After(HxScale(1500 * time.Millisecond)):
		res = "stuck" // the watchdog OBSERVES non-termination of the drain
		for i := int64(0); i < vig; i++ {
			fresh.CeaseVigil() // let it end
		}
		<-fin
	}
	return fmt.Sprintf("delpanic panicked=%v vig=%d destroy=%s", reached, vig, res)
}

func init() {
	Register("C17", Domain{Gen: genC17, Run: runC17})
}

func genC17(rng *rand.Rand, tier string, w *bufio.Writer) {
	cases, maxLen := 100, 14
	if tier == "thorough" {
		cases, maxLen = 1500, 30
	}
	// corpus: the Lean witness (check, dec, broadcast, add, park), then the same with two operations,
	// a broadcast that arrives after the ticket, a waiter that finds nothing in flight, the RPC handlers
	fmt.Fprintln(w, "case 0\nbegin\nwait\ncease\nbcast\nwgo 1\nexpect 1\nbcast\nexpect 1")
	fmt.Fprintln(w, "case 1\nbegin\nbegin\nwait\ncease\nbcast\nwgo 1\nexpect 1\ncease\nbcast\nexpect 1")
	fmt.Fprintln(w, "case 2\nbegin\nwait\nwgo 1\nexpect 1\ncease\nexpect 1\nbcast\nexpect 1\nwait\nexpect 2")
	fmt.Fprintln(w, "case 3\nrpcs\nclosefail\ndestroysave\ndelpanic")
	// the last operation ends while a waiter is on its way to the mutex: with check and sleep decided under the mutex it returns
	fmt.Fprintln(w, "case 4\nbegin\nholdmu\ncease\nwait\nfreemu\nbcast\nwgo 1\nexpect 1")
	fmt.Fprintln(w, "case 5\nbegin\nbegin\nholdmu\nwait\ncease\nfreemu\nwgo 1\nbcast\ncease\nbcast\nexpect 1")
	for c := 6; c < cases; c++ {
		fmt.Fprintf(w, "case %d\n", c)
		n := 4 + rng.Intn(maxLen)
		waiters, open, held := 0, 0, 0
		stopped, ceasesWhileStopped := 0, 0 // the waiter (if any) stopped after its check
		for i := 0; i < n; i++ {
			r := rng.Intn(100)
			if stopped > 0 && rng.Intn(3) == 0 {
				fmt.Fprintf(w, "wgo %d\n", stopped)
				stopped = 0
				continue
			}
			switch {
			case r < 22 || (open == 0 && held == 0 && waiters == 0):
				fmt.Fprintln(w, "begin")
				open++
			case r < 42 && open > 0 && (stopped == 0 || ceasesWhileStopped < 2):
				fmt.Fprintln(w, "cease")
				open--
				held++
				if stopped > 0 {
					ceasesWhileStopped++
				}
			case r < 60 && held > 0:
				fmt.Fprintln(w, "bcast")
				held--
			case r < 76 && stopped == 0:
				fmt.Fprintln(w, "wait")
				waiters++
				if open > 0 {
					stopped, ceasesWhileStopped = waiters, 0
				}
			case r < 88 && waiters > 0:
				k := 1 + rng.Intn(waiters)
				fmt.Fprintf(w, "wgo %d\n", k)
				if k == stopped {
					stopped = 0
				}
			case waiters > 0:
				fmt.Fprintf(w, "expect %d\n", 1+rng.Intn(waiters))
			default:
				fmt.Fprintln(w, "begin")
				open++
			}
		}
		// finish every operation, then ask where each waiter is
		for ; open > 0; open-- {
			fmt.Fprintln(w, "cease")
			held++
		}
		for j := 1; j <= waiters; j++ {
			fmt.Fprintf(w, "wgo %d\n", j)
		}
		for ; held > 0; held-- {
			fmt.Fprintln(w, "bcast")
		}
		for j := 1; j <= waiters; j++ {
			fmt.Fprintf(w, "expect %d\n", j)
		}
	}
}

func runC17(in *bufio.Scanner, out *bufio.Writer) {
	var w *c17World
	install := func() {
		if w != nil {
			w.cleanup()
		}
		w = c17NewWorld()
		verifhook.SetHandler(w.handler)
	}
	install()
	defer func() { w.cleanup(); verifhook.SetHandler(nil) }()
	get := func(f []string) *c17Waiter {
		if len(f) < 2 {
			return nil
		}
		n, err := strconv.Atoi(f[1])
		if err != nil || n < 1 || n > len(w.waiters) {
			return nil
		}
		return w.waiters[n-1]
	}
	for in.Scan() {
		line := strings.TrimSpace(in.Text())
		f := strings.Fields(line)
		if len(f) == 0 {
			fmt.Fprintln(out, "bad-op")
			continue
		}
		if c17BrokenCases > 4 {
			fmt.Fprintln(out, "aborted")
			continue
		}
		if w.broken && f[0] != "case" {
			fmt.Fprintln(out, "broken")
			continue
		}
		if w.muRelease != nil && f[0] != "begin" && f[0] != "cease" && f[0] != "wait" && f[0] != "freemu" && f[0] != "case" {
			fmt.Fprintln(out, "busy")
			continue
		}
		switch f[0] {
		case "case":
			install()
			fmt.Fprintln(out, line)
		case "holdmu":
			if w.lockHeld() {
				fmt.Fprintln(out, "busy")
				break
			}
			w.muRelease = vigil.VerifHoldLock(w.v)
			fmt.Fprintln(out, "holdmu "+w.stateNoLock())
		case "freemu":
			if w.muRelease == nil {
				fmt.Fprintln(out, "skip")
				break
			}
			time.Sleep(HxScale(5 * time.Millisecond)) // everybody in the line has starved for > 1 ms: FIFO hand-over
			rel := w.muRelease
			w.muRelease = nil
			w.mu.Lock()
			w.holdCheck = true // a waiter from the line is stopped after its (next) positive check
			w.mu.Unlock()
			rel()
			var res []string
			for _, who := range w.muQueue {
				if who == "c" && w.lockHeld() {
					// a waiter from the line now sits, stopped, inside the mutex: this CeaseVigil stays behind it
					res = append(res, "c:blocked")
					continue
				}
				if who == "c" {
					if w.waitEvent("dec", HxScale(3*time.Second)) {
						w.heldC++
						w.blockedC--
						res = append(res, "c:held")
					} else {
						w.timeout()
						res = append(res, "c:timeout")
					}
					continue
				}
				n, _ := strconv.Atoi(who)
				x := w.waiters[n-1]
				select {
				case <-x.done:
					x.state = 'd'
					res = append(res, who+":done")
				case ev := <-w.events:
					if ev == "checked" {
						x.state = 'c'
						res = append(res, who+":checked")
					} else {
						res = append(res, who+":"+ev)
					}
				case <-time.After(HxScale(3 * time.Second)):
					w.timeout()
					res = append(res, who+":timeout")
				}
			}
			w.mu.Lock()
			if !w.lockHeld() {
				w.holdCheck = false
			}
			w.mu.Unlock()
			w.muQueue = nil
			fmt.Fprintf(out, "freemu %s %s\n", strings.Join(res, " "), w.state())
		case "delpanic":
			fmt.Fprintln(out, c17DelPanic(func() { verifhook.SetHandler(w.handler) }))
		case "destroysave":
			fmt.Fprintln(out, c17DestroySave(func() { verifhook.SetHandler(w.handler) }))
		case "closefail":
			fmt.Fprintln(out, c17CloseFail())
		case "begin":
			w.v.BeginVigil()
			w.open++
			fmt.Fprintln(out, "begin "+w.state())
		case "cease":
			if w.open == 0 {
				fmt.Fprintln(out, "skip")
				break
			}
			w.open--
			w.ceaseWG.Add(1)
			go func(v vigil.Vigil, cw *c17World) { defer cw.ceaseWG.Done(); v.CeaseVigil(); cw.ceaseFin.Add(1) }(w.v, w)
			d := HxScale(3 * time.Second)
			if w.lockHeld() || w.muRelease != nil {
				d = HxScale(100 * time.Millisecond) // with the mutex around the decrement it cannot get there now
			}
			res := "held"
			if w.waitEvent("dec", d) {
				w.heldC++
			} else if w.muRelease != nil {
				w.blockedC++
				w.muQueue = append(w.muQueue, "c")
				res = "queued"
				fmt.Fprintf(out, "cease %s %s\n", res, w.stateNoLock())
				break
			} else if w.lockHeld() {
				w.blockedC++
				res = "blocked"
			} else {
				w.timeout()
				res = "unexpected-timeout"
			}
			fmt.Fprintf(out, "cease %s %s\n", res, w.state())
		case "bcast":
			if w.heldC == 0 {
				fmt.Fprintln(out, "skip")
				break
			}
			if w.lockHeld() && w.anyAsleep() {
				// the woken waiters would queue on the mutex behind the stopped one, racing with
				// whoever else wants it: not a forced schedule any more
				fmt.Fprintln(out, "busy")
				break
			}
			w.mu.Lock()
			ch := w.decRel[0]
			w.decRel = w.decRel[1:]
			w.mu.Unlock()
			w.heldC--
			before := w.ceaseFin.Load()
			close(ch)
			// the Broadcast has happened once that CeaseVigil call has returned
			for dl := time.Now().Add(HxScale(3 * time.Second)); w.ceaseFin.Load() == before; {
				if time.Now().After(dl) {
					w.timeout()
					break
				}
				time.Sleep(50 * time.Microsecond)
			}
			res := w.afterBroadcast()
			fmt.Fprintf(out, "bcast%s %s\n", res, w.state())
		case "wait":
			if w.lockHeld() || (w.muRelease != nil && len(w.muQueue) > 0 && w.muQueue[len(w.muQueue)-1] != "c") {
				fmt.Fprintln(out, "busy")
				break
			}
			x := &c17Waiter{n: len(w.waiters) + 1, done: make(chan struct{})}
			w.waiters = append(w.waiters, x)
			w.mu.Lock()
			w.holdCheck = true
			w.mu.Unlock()
			go func(v vigil.Vigil) { v.WaitForActiveVigilsClosed(); close(x.done) }(w.v)
			if w.muRelease != nil {
				// it lines up on the mutex the harness holds (a real waiter takes the mutex before it checks)
				select {
				case <-x.done:
					x.state = 'd'
					fmt.Fprintf(out, "wait %d done %s\n", x.n, w.stateNoLock())
				case <-time.After(HxScale(100 * time.Millisecond)):
					x.state = 'q'
					w.muQueue = append(w.muQueue, strconv.Itoa(x.n))
					fmt.Fprintf(out, "wait %d queued %s\n", x.n, w.stateNoLock())
				}
				break
			}
			res := ""
			deadline := time.After(HxScale(3 * time.Second))
		loop:
			for {
				select {
				case <-x.done:
					x.state, res = 'd', "done"
					w.mu.Lock()
					w.holdCheck = false
					w.mu.Unlock()
					break loop
				case ev := <-w.events:
					if ev == "checked" {
						x.state, res = 'c', "checked"
						break loop
					}
				case <-deadline:
					w.timeout()
					x.state, res = 'p', "unexpected-timeout"
					break loop
				}
			}
			fmt.Fprintf(out, "wait %d %s %s\n", x.n, res, w.state())
		case "wgo":
			x := get(f)
			if x == nil || x.state != 'c' {
				fmt.Fprintln(out, "skip")
				break
			}
			w.mu.Lock()
			ch := w.checkRel
			w.checkRel = nil
			w.mu.Unlock()
			x.state = 'p'
			if ch != nil {
				close(ch)
			}
			res := "parked"
			// CeaseVigil calls that were waiting for the mutex get it once the waiter sleeps
			for w.blockedC > 0 {
				if !w.waitEvent("dec", HxScale(3*time.Second)) {
					w.timeout()
					res = "unexpected-timeout"
					break
				}
				w.blockedC--
				w.heldC++
			}
			if !w.waitLockFree(HxScale(3 * time.Second)) {
				w.timeout()
				res = "unexpected-lock-stuck"
			}
			fmt.Fprintf(out, "wgo %d %s %s\n", x.n, res, w.state())
		case "expect":
			x := get(f)
			if x == nil {
				fmt.Fprintln(out, "skip")
				break
			}
			res := ""
			switch x.state {
			case 'd':
				res = "done"
			case 'c':
				res = "checked"
			default:
				select {
				case <-x.done:
					x.state, res = 'd', "done"
				default:
					res = "parked"
					if vigil.VerifCount(w.v) <= 0 && w.heldC == 0 && w.blockedC == 0 {
						// watchdog: every operation has finished; a live waiter returns promptly
						select {
						case <-x.done:
							x.state, res = 'd', "done"
						case <-time.After(HxScale(250 * time.Millisecond)):
							res = "stuck"
						}
					}
				}
			}
			fmt.Fprintf(out, "expect %d %s %s\n", x.n, res, w.state())
		case "rpcs":
			fmt.Fprintln(out, c17Rpcs())
		default:
			fmt.Fprintln(out, "bad-op")
		}
		out.Flush()
	}
}

// c17Rpcs runs real gateway handlers (normal returns, an early error return and a recovered
// panic) and reads both counters afterwards.
func c17Rpcs() string {
	rig, err := NewRig(2, 100, 3600, 1)
	if err != nil {
		return "rig-error"
	}
	defer rig.Stop(true)
	ctx := context.Background()
	sw := name.New().Sanctuary("c17").Realm("handlers").Swamp("one")
	val, _ := msgpack.Marshal("x")
	calls, errs, nils := 0, 0, 0
	note := func(resp any, err error) {
		calls++
		if err != nil {
			errs++
		} else if resp == nil {
			nils++
		}
	}
	{
		r, e := rig.GW.PatchTreasures(ctx, &hydrapb.PatchTreasuresRequest{IslandID: 1, SwampName: sw.Get(), CreateIfNotExist: true,
			Patches: []*hydrapb.TreasurePatch{{Key: "k", Ops: []*hydrapb.PatchOp{{Op: hydrapb.PatchOp_SET, Path: "a", Value: val}}}}})
		if r == nil {
			note(nil, e)
		} else {
			note(r, e)
		}
	}
	{
		r, e := rig.GW.GetAll(ctx, &hydrapb.GetAllRequest{IslandID: 1, SwampName: sw.Get()})
		if r == nil {
			note(nil, e)
		} else {
			note(r, e)
		}
	}
	{
		r, e := rig.GW.Count(ctx, &hydrapb.CountRequest{Swamps: []*hydrapb.CountRequest_SwampIdentifier{{IslandID: 1, SwampName: sw.Get()}}})
		if r == nil {
			note(nil, e)
		} else {
			note(r, e)
		}
	}
	{ // a malformed swamp name: the handler panics inside and `defer handlePanic()` recovers
		r, e := rig.GW.Count(ctx, &hydrapb.CountRequest{Swamps: []*hydrapb.CountRequest_SwampIdentifier{{IslandID: 1, SwampName: "ab"}}})
		if r == nil {
			note(nil, e)
		} else {
			note(r, e)
		}
	}
	{ // early error return: empty swamp name
		r, e := rig.GW.GetAll(ctx, &hydrapb.GetAllRequest{IslandID: 1, SwampName: ""})
		if r == nil {
			note(nil, e)
		} else {
			note(r, e)
		}
	}
	// a Delete that empties a swamp: the swamp method gives the handler's vigil back itself and destroys
	// the instance; the handler's deferred CeaseVigil then runs once more on the dead instance
	dead := "unknown"
	{
		sw2 := name.New().Sanctuary("c17").Realm("handlers").Swamp("two")
		r, e := rig.GW.PatchTreasures(ctx, &hydrapb.PatchTreasuresRequest{IslandID: 1, SwampName: sw2.Get(), CreateIfNotExist: true,
			Patches: []*hydrapb.TreasurePatch{{Key: "only", Ops: []*hydrapb.PatchOp{{Op: hydrapb.PatchOp_SET, Path: "a", Value: val}}}}})
		if r == nil {
			note(nil, e)
		} else {
			note(r, e)
		}
		if inst, err := rig.Zeus.GetHydra().SummonSwamp(ctx, 1, sw2); err == nil {
			fin := make(chan struct{})
			go func() {
				d, e := rig.GW.Delete(ctx, &hydrapb.DeleteRequest{Swamps: []*hydrapb.DeleteRequest_SwampKeys{{IslandID: 1, SwampName: sw2.Get(), Keys: []string{"only"}}}})
				if d == nil {
					note(nil, e)
				} else {
					note(d, e)
				}
				close(fin)
			}()
			select {
			case <-fin:
				dead = strconv.FormatInt(swamp.VerifVigilCount(inst), 10)
			case <-time.After(HxScale(3 * time.Second)):
				// the handler is stuck in Destroy's drain, waiting for its own vigil
				dead = "hang"
				inst.CeaseVigil()
				<-fin
			}
		}
	}
	sys := rig.Zeus.GetSafeops().SystemLocked()
	vig := "unknown"
	if s, err := rig.Zeus.GetHydra().SummonSwamp(ctx, 1, sw); err == nil {
		vig = strconv.FormatBool(s.HasActiveVigils())
	}
	_ = nils
	return fmt.Sprintf("rpcs calls=%d sys=%v vig=%s vigdead=%s", calls, sys, vig, dead)
}
