package main

// Domain C25: disk write failures.  Each fault scenario is one traced run of the real code:
//   * hard errors: strace -e inject=write|fsync:error=EIO:when=N fails the N-th such syscall
//     (the worker keeps all file operations on one thread and prints nothing until the end, so
//     N counts storage operations only);
//   * short writes: RLIMIT_FSIZE (worker command `fsizeplus K`: the file may grow K more bytes),
//     SIGXFSZ ignored: the write transfers K bytes, its retry fails with EFBIG.
// After the fault the history goes on with the fault cleared, ends with Sync + Close, and a
// fresh chronicler loads the file.

import (
	"bufio"
	"fmt"
	"math/rand"
	"os"
	"os/exec"
	"path/filepath"
	"strconv"
	"strings"
	"sync"
	"time"

	"github.com/hydraide/hydraide/app/core/hydra/swamp"
	"github.com/hydraide/hydraide/app/core/hydra/swamp/beacon"
	"github.com/hydraide/hydraide/app/core/hydra/swamp/chronicler"
	"github.com/hydraide/hydraide/app/core/hydra/swamp/metadata"
	"github.com/hydraide/hydraide/app/name"
)

func init() {
	Register("C25T", Domain{Gen: c25Gen, Run: c25Trace})
	Register("C25", Domain{Gen: func(*rand.Rand, string, *bufio.Writer) {}, Run: func(in *bufio.Scanner, w *bufio.Writer) { c02RunOps(in, w, false) }})
}

// a base history: a few synced batches, a victim region, then clean writes
func c25Base(rng *rand.Rand, chron string) (pre, post []string) {
	h := &c03Hist{rng: rng}
	nk := 3 + rng.Intn(3)
	batch := func() string {
		var items []string
		for n := 1 + rng.Intn(3); n > 0; n-- {
			k := 1 + rng.Intn(nk)
			if rng.Intn(7) == 0 {
				items = append(items, fmt.Sprintf("d:%d", k))
			} else {
				items = append(items, h.put(k))
			}
		}
		return "w " + strings.Join(items, ",")
	}
	// probes: what a reader would see at that moment, fault or not (readability DURING the fault)
	pre = []string{chron, "live 1000000", batch(), "sync", batch(), "sync", "probe", batch(), "sync", "probe"}
	post = []string{batch(), "sync", "probe", batch(), "sync", "probe", "close", chron, "load"}
	return
}

func c25Gen(rng *rand.Rand, tier string, w *bufio.Writer) {
	nBase, maxN := 2, 18
	if tier == "thorough" {
		nBase, maxN = 12, 60
	}
	id := 0
	c25CompactCases(rng, &id, w, 8)
	c25OutageCases(rng, tier, &id, w)
	c25SwampCases(rng, tier, &id, w)
	c25CloseRetryCases(rng, tier, &id, w)
	for b := 0; b < nBase; b++ {
		chron := fmt.Sprintf("chron cfg %d 0.3", c02Pick(rng, 450, 900, 16384))
		if b%2 == 1 {
			chron = "chron name swmp"
		}
		pre, post := c25Base(rng, chron)
		all := append(append([]string{}, pre...), post...)
		// hard errors at the N-th write / fsync of the whole run (N beyond the run: a clean control case)
		for n := 1; n <= maxN; n++ {
			fmt.Fprintf(w, "case %d inject write %d\n", id, n)
			for _, l := range all {
				fmt.Fprintln(w, l)
			}
			id++
		}
		for n := 1; n <= 4; n++ {
			fmt.Fprintf(w, "case %d inject fsync %d\n", id, n)
			for _, l := range all {
				fmt.Fprintln(w, l)
			}
			id++
		}
		// two hard errors
		for t := 0; t < 3; t++ {
			a := 3 + rng.Intn(maxN-6)
			fmt.Fprintf(w, "case %d inject write2 %d %d\n", id, a, a+2+rng.Intn(4))
			for _, l := range all {
				fmt.Fprintln(w, l)
			}
			id++
		}
		// a write fault whose rollback truncate fails too (a repaired writer must cope with that)
		for t := 0; t < 3; t++ {
			fmt.Fprintf(w, "case %d inject writetrunc %d\n", id, 3+rng.Intn(maxN-4))
			for _, l := range all {
				fmt.Fprintln(w, l)
			}
			id++
		}
		// short writes: the file may grow K more bytes during one victim batch (+ its Sync)
		for _, k := range []int{0, 1, 15, 16, 17, 100, 400} {
			fmt.Fprintf(w, "case %d short %d\n", id, k)
			for _, l := range pre {
				fmt.Fprintln(w, l)
			}
			fmt.Fprintf(w, "fsizeplus %d\n", k)
			fmt.Fprintln(w, post[0])
			fmt.Fprintln(w, post[1])
			fmt.Fprintln(w, "probe") // the disk is still full
			fmt.Fprintln(w, "fsize 0")
			for _, l := range post[2:] {
				fmt.Fprintln(w, l)
			}
			id++
		}
	}
}

// a long outage: the disk is full (RLIMIT_FSIZE at the current size: every append fails outright,
// nothing is transferred) while the swamp keeps writing — the callers only log the errors — until
// more entries are pending than the 16-bit EntryCount of a block can hold (the real constant,
// math.MaxUint16); then the fault clears.  A block size far above the batch keeps the size rule
// out of the way, so the only flushes are the ones the count rule asks for (each fails).
// Quick: one history with minimal entries (one key, one value).  Thorough: several keys, a second
// outage, a Sync in the middle of the outage, and the default block size (every entry retries).
func c25OutageCases(rng *rand.Rand, tier string, id *int, w *bufio.Writer) {
	emit := func(title string, lines []string) {
		fmt.Fprintf(w, "case %d %s\n", *id, title)
		for _, l := range lines {
			fmt.Fprintln(w, l)
		}
		*id++
	}
	big := "chron cfg 1073741824 1.0"
	over := 65535 + 1 + rng.Intn(40)
	emit(fmt.Sprintf("outage %d", over), []string{big, "live 1000000",
		"w p:1:1,p:2:2", "sync",
		"fsizeplus 0", fmt.Sprintf("w p:3:3*%d,p:3:8,p:3:9", over-2), "sync", "fsize 0",
		"w p:4:4", "sync", "close", big, "load"})
	if tier != "thorough" {
		return
	}
	// exactly below / at / over the bound; a Sync and a second batch inside the outage.  Every
	// WriteEntry past the bound retries the flush and re-encodes a whole block (≈ 26 MB of entries
	// here), so only a few dozen entries go beyond it (three blocks' worth would take hours).
	for _, n := range []int{65534, 65535, 65536, 65535 + 45} {
		emit(fmt.Sprintf("outage %d", n), []string{big, "live 1000000",
			"w p:1:1,p:2:2", "sync",
			"fsizeplus 0", fmt.Sprintf("w p:3:3*%d,p:3:7,d:1", n-32), "sync", "w p:5:5*29,p:3:6", "sync", "fsize 0",
			"w p:4:4", "sync", "close", big, "load"})
	}
	// two outages in a row, the second one while the first backlog is only partly written (short write)
	emit("outage twice", []string{big, "live 1000000",
		"w p:1:1,p:2:2", "sync",
		"fsizeplus 0", "w p:3:3*65559,p:3:7", "sync", "fsizeplus 100", "w p:6:6,p:3:8", "sync", "fsize 0",
		"w p:4:4", "sync", "close", big, "load"})
	// the default block size: every WriteEntry past the size bound retries the flush (and re-encodes
	// the whole backlog each time — quadratic in the real code, so this one stays far below the bound)
	small := "chron cfg 16384 1.0"
	emit("outage retry-each-entry", []string{small, "live 1000000",
		"w p:1:1,p:2:2", "sync",
		"fsizeplus 0", "w p:3:3*1500", "sync", "fsize 0",
		"w p:4:4", "sync", "close", small, "load"})
}

// compaction under faults: a small fragmented history, closed, then a compaction through the CLI
// body (Compactor.Compact), ForceCompaction (runCompactionLocked) or a Load self-heal is hit by a
// write / fsync / rename error; afterwards a fresh chronicler loads the file.
func c25CompactCases(rng *rand.Rand, id *int, w *bufio.Writer, nWrite int) {
	h := &c03Hist{rng: rng}
	chron := "chron name swmp"
	var pre []string
	pre = append(pre, chron, "live 1000000")
	for b := 0; b < 3; b++ {
		pre = append(pre, "w "+h.put(1)+","+h.put(2)+","+h.put(3), "sync")
	}
	pre = append(pre, "close")
	post := []string{chron, "load", "w " + h.put(4), "sync", "close", chron, "load"}
	for _, ep := range []string{"cli 0.01", "force"} {
		all := append(append(append([]string{}, pre...), strings.Replace(ep, "force", chron+"\nforce", 1)), post...)
		emit := func(title string) {
			fmt.Fprintf(w, "case %d %s\n", *id, title)
			for _, l := range all {
				fmt.Fprintln(w, l)
			}
			*id++
		}
		// the history itself issues 17 writes and 4 fsyncs; the compaction's own operations come after
		for n := 15; n < 15+nWrite; n++ {
			emit(fmt.Sprintf("inject write %d compact-%s", n, strings.Fields(ep)[0]))
		}
		emit("inject fsync 5 compact-" + strings.Fields(ep)[0])
		emit("inject rename 1 compact-" + strings.Fields(ep)[0])
	}
}

func c25Trace(in *bufio.Scanner, w *bufio.Writer) {
	cases := c02ReadCases(in)
	outs := make([]c02CaseOut, len(cases))
	var wg sync.WaitGroup
	sem := make(chan struct{}, 12)
	var swampCases []c02CaseIn
	for i, c := range cases {
		if strings.HasPrefix(c.Title, "swamp ") {
			swampCases = append(swampCases, c)
			continue
		}
		wg.Add(1)
		go func(i int, c c02CaseIn) {
			defer wg.Done()
			sem <- struct{}{}
			defer func() { <-sem }()
			var extra []string
			f := strings.Fields(c.Title)
			if len(f) >= 3 && f[0] == "inject" {
				switch f[1] {
				case "write":
					extra = []string{"-e", "inject=write:error=EIO:when=" + f[2]}
				case "fsync":
					extra = []string{"-e", "inject=fsync:error=EIO:when=" + f[2]}
				case "rename":
					extra = []string{"-e", "inject=rename,renameat,renameat2:error=EIO:when=" + f[2]}
				case "writetrunc":
					extra = []string{"-e", "inject=write:error=EIO:when=" + f[2], "-e", "inject=ftruncate:error=EIO:when=1"}
				case "write2":
					extra = []string{"-e", "inject=write:error=EIO:when=" + f[2], "-e", "inject=write:error=EIO:when=" + f[3]}
				}
			}
			o, err := c02TraceCases([]c02CaseIn{c}, extra)
			if err != nil {
				fmt.Fprintln(os.Stderr, "C25T:", c.ID, err)
			}
			if len(o) == 1 {
				outs[i] = o[0]
				outs[i].Faulty = true
			}
		}(i, c)
	}
	wg.Wait()
	for _, co := range outs {
		if co.Cl == nil {
			continue
		}
		c02EmitCase(w, co, nil, false, false)
	}
	for _, c := range swampCases {
		c25EmitSwamp(w, c)
	}
}

// ---------------------------------------------------------------- a real swamp under faults
//
// The chronicler rig calls DontSendFilePointer, so it cannot see what the swamp does with the
// file-pointer events: a treasure without a pointer is "not on disk" for the swamp, and deleting it
// writes no tombstone.  These scenarios drive a real swamp (pointer events on, the write tick called
// by hand) in an untraced worker process; RLIMIT_FSIZE is the fault.  Oracle: the key/value Spec.

type c25Swamp struct {
	sw   swamp.Swamp
	name name.Name
}

func (r *c25Swamp) cmd(dir string, f []string) string {
	base := filepath.Join(dir, "sw")
	switch f[0] {
	case "swamp":
		r.name = name.New().Sanctuary("hx").Realm("c25").Swamp("real")
		ch := chronicler.NewV2WithName(base, 2, r.name.Get())
		ch.CreateDirectoryIfNotExists()
		meta := metadata.NewNoop()
		meta.SetSwampName(r.name)
		fss := &swamp.FilesystemSettings{ChroniclerInterface: ch, WriteInterval: time.Hour}
		r.sw = swamp.New(r.name, time.Hour, fss, func(*swamp.Event) {}, func(*swamp.Info) {}, func(name.Name) {}, meta)
		r.sw.BeginVigil()
	case "ssave":
		k, _ := strconv.Atoi(f[1])
		v, _ := strconv.Atoi(f[2])
		pad := 0
		if len(f) > 3 {
			pad, _ = strconv.Atoi(f[3])
		}
		tr := r.sw.CreateTreasure(c02KeyName(k))
		if tr == nil {
			return "err create"
		}
		g := tr.StartTreasureGuard(true)
		tr.SetContentString(g, c02Content(v, pad))
		_ = tr.Save(g)
		tr.ReleaseTreasureGuard(g)
	case "sdel":
		k, _ := strconv.Atoi(f[1])
		if err := r.sw.DeleteTreasure(c02KeyName(k), false); err != nil {
			return "err " + err.Error()
		}
	case "stick":
		r.sw.WriteTreasuresToFilesystem()
	case "sclose":
		r.sw.CeaseVigil()
		r.sw.Close()
	case "sload":
		ch := chronicler.NewV2WithName(base, 2, r.name.Get())
		b := beacon.New()
		ch.Load(b)
		return "ok " + c02BeaconState(b)
	}
	return "ok"
}

// c25RunPlain runs a worker script without strace and returns the result of every command.
func c25RunPlain(cmds []string) ([]string, error) {
	tmp, err := os.MkdirTemp(c02TmpRoot(), "hxswamp-")
	if err != nil {
		return nil, err
	}
	defer os.RemoveAll(tmp)
	script := append([]string{"dir " + filepath.Join(tmp, "d")}, cmds...)
	sp, rp := filepath.Join(tmp, "script"), filepath.Join(tmp, "results")
	if err := os.WriteFile(sp, []byte(strings.Join(script, "\n")+"\n"), 0o644); err != nil {
		return nil, err
	}
	self, _ := os.Executable()
	cmd := exec.Command(self)
	cmd.Env = append(os.Environ(), "HX_STOR_WORKER="+sp, "HX_STOR_RESULTS="+rp)
	runErr := cmd.Run()
	b, _ := os.ReadFile(rp)
	var out []string
	for _, l := range strings.Split(string(b), "\n") {
		if p := strings.SplitN(l, " ", 3); len(p) == 3 && p[0] == "r" {
			out = append(out, p[2])
		}
	}
	if len(out) < len(script) {
		return nil, fmt.Errorf("swamp worker: %v (%d of %d results)", runErr, len(out), len(script))
	}
	return out[1:], nil
}

// big enough for one treasure to exceed the 16 KiB block: WriteEntry flushes at once
const c25BigPad = 20000

func c25SwampCases(rng *rand.Rand, tier string, id *int, w *bufio.Writer) {
	emit := func(title string, lines []string) {
		fmt.Fprintf(w, "case %d swamp %s\n", *id, title)
		for _, l := range lines {
			fmt.Fprintln(w, l)
		}
		*id++
	}
	// a Set whose block cannot be written (disk full), the fault clears, the record is deleted
	emit("delete-after-failed-flush", []string{"swamp", "ssave 1 1", "stick",
		"fsizeplus 0", fmt.Sprintf("ssave 2 2 %d", c25BigPad), "stick", "fsize 0",
		"ssave 3 3", "stick", "sdel 2", "stick", "sclose", "sload"})
	// the same with an update in place of the delete, and with small records (buffered, flushed by the tick's Sync)
	emit("update-after-failed-flush", []string{"swamp", "ssave 1 1", "stick",
		"fsizeplus 0", fmt.Sprintf("ssave 2 2 %d", c25BigPad), "stick", "fsize 0",
		fmt.Sprintf("ssave 2 5 %d", c25BigPad), "stick", "ssave 3 3", "stick", "sclose", "sload"})
	emit("delete-after-failed-sync", []string{"swamp", "ssave 1 1", "stick",
		"fsizeplus 0", "ssave 2 2", "ssave 4 4", "stick", "fsize 0",
		"sdel 2", "stick", "ssave 3 3", "stick", "sclose", "sload"})
	n := 3
	if tier == "thorough" {
		n = 30
	}
	for i := 0; i < n; i++ {
		lines := []string{"swamp", "ssave 1 1", "stick"}
		live := map[int]bool{1: true}
		val := 10
		for step := 0; step < 4+rng.Intn(5); step++ {
			k := 1 + rng.Intn(4)
			fault := rng.Intn(3) == 0
			if fault {
				lines = append(lines, fmt.Sprintf("fsizeplus %d", c02Pick(rng, 0, 0, 17, 300)))
			}
			// (a swamp that loses its last treasure destroys itself: keep one alive)
			if live[k] && len(live) >= 2 && rng.Intn(2) == 0 {
				lines = append(lines, fmt.Sprintf("sdel %d", k))
				delete(live, k)
			} else {
				val++
				pad := 10
				if rng.Intn(2) == 0 {
					pad = c25BigPad
				}
				lines = append(lines, fmt.Sprintf("ssave %d %d %d", k, val, pad))
				live[k] = true
			}
			lines = append(lines, "stick")
			if fault {
				lines = append(lines, "fsize 0", "stick")
			}
		}
		lines = append(lines, "stick", "sclose", "sload")
		emit("random", lines)
	}
}

func c25EmitSwamp(w *bufio.Writer, c c02CaseIn) {
	res, err := c25RunPlain(c.Cmds)
	if err != nil {
		fmt.Fprintln(os.Stderr, "C25T swamp:", c.ID, err)
		return
	}
	fmt.Fprintf(w, "case %s %s\n", c.ID, c.Title)
	for i, cmd := range c.Cmds {
		f := strings.Fields(cmd)
		switch f[0] {
		case "swamp":
			fmt.Fprintln(w, "sw new")
		case "ssave":
			fmt.Fprintf(w, "sw save %s %s\n", f[1], f[2])
		case "sdel":
			fmt.Fprintf(w, "sw del %s\n", f[1])
		case "stick":
			fmt.Fprintln(w, "sw tick")
		case "sclose":
			fmt.Fprintln(w, "sw close")
		case "sload":
			st := "-"
			if p := strings.Fields(res[i]); len(p) > 1 {
				st = p[1]
			}
			fmt.Fprintln(w, "sw load "+st)
		default:
			fmt.Fprintln(w, "sw "+strings.Join(f, "-"))
		}
	}
	fmt.Fprintln(w, "end")
}

// a Close that fails, and the SAME chronicler goes on (the swamp is not evicted; or the Close was the
// one runCompactionLocked starts): the fault clears, more is written, Sync, Close, a fresh Load.
func c25CloseRetryCases(rng *rand.Rand, tier string, id *int, w *bufio.Writer) {
	emit := func(title string, lines []string) {
		fmt.Fprintf(w, "case %d %s\n", *id, title)
		for _, l := range lines {
			fmt.Fprintln(w, l)
		}
		*id++
	}
	ks := []int{0, 17, 100}
	if tier == "thorough" {
		ks = []int{0, 1, 15, 16, 17, 100, 400}
	}
	for _, k := range ks {
		for _, op := range []string{"close", "force"} {
			h := &c03Hist{rng: rng}
			chron := fmt.Sprintf("chron cfg %d 1.0", c02Pick(rng, 900, 16384))
			emit(fmt.Sprintf("closeretry %s %d", op, k), []string{chron, "live 1000000",
				"w " + h.put(1) + "," + h.put(2), "sync",
				"w " + h.put(3) + "," + h.put(1), fmt.Sprintf("fsizeplus %d", k), op, "fsize 0",
				"w " + h.put(4), "sync", "w " + h.put(2), "close", chron, "load"})
		}
	}
}
