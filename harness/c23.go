package main

// Domain C23: real V1 chronicler → real migrator → real V2 chronicler.
//
// `hx gen` builds every legacy folder with the REAL V1 engine (chronicler.New + filesystem.New)
// from a generated write / modify / delete history with a small chunk size, and describes what
// is on disk at record level (its own framing parser + gob decode) on the op line — the Lean
// driver sees the folder, not the history (chunk names are UUIDs chosen by the engine).
//
// ops:   case N <kind> maxFileSize=… saves=…
//        mig DIR v=<0|1> d=<0|1> r=<0|1> fault=<none|load|write:K|verify|dropkey|unlink:K|…> pre=<none|valid|stub|junk> | name=NAME | folder=<file:key=hash,…;…>
// reply: res=<success|skipped|failed:PHASE> v1=<same|gone|left:K> hyd=<0|1|kept> load=<match|dup-ok|none|DIFF…> name=<ok|na|BAD…>
//
//   (pre=newer: the file an earlier run wrote, with one key rewritten since — same name, same keys, one other value)
//   pre = what is at the target path (<folder>.hyd) before the run: nothing; a valid V2 file of another swamp name holding a
//   record the folder does not have and a newer value of one it has; a header-only file (an interrupted earlier run); ten bytes of junk.
//   hyd=kept: that file is still there, byte for byte.
//   fault=dropkey: between writing and verifying (hook migrate.written) the new file is replaced by a valid one that lacks one key.
//   name: the swamp name read back from the migrated file is compared byte for byte with the name the harness itself decoded from the
//   V1 meta file (names are mixed-case, non-ASCII, long).
//
//   load = comparison, record by record (gob bytes of the whole treasure, not just keys), of what the
//   real V2 chronicler loads from the migrated file with what the real V1 chronicler loaded from the
//   folder before the migration.  For a key that sits in several chunks the legacy result depends on
//   Go map iteration order; such folders are reported separately: `dup-ok` when the migrated value of
//   every such key is the last value of one of the chunks holding it.

import (
	"bufio"
	"bytes"
	"crypto/sha1"
	"encoding/binary"
	"encoding/gob"
	"encoding/hex"
	"fmt"
	"io"
	"log/slog"
	"math/rand"
	"os"
	"os/exec"
	"os/signal"
	"path/filepath"
	"runtime"
	"sort"
	"strings"
	"sync"
	"sync/atomic"
	"syscall"
	"time"

	"github.com/golang/snappy"
	"github.com/hydraide/hydraide/app/core/filesystem"
	"github.com/hydraide/hydraide/app/core/hydra/swamp/beacon"
	"github.com/hydraide/hydraide/app/core/hydra/swamp/chronicler"
	v2 "github.com/hydraide/hydraide/app/core/hydra/swamp/chronicler/v2"
	"github.com/hydraide/hydraide/app/core/hydra/swamp/chronicler/v2/migrator"
	"github.com/hydraide/hydraide/app/core/hydra/swamp/metadata"
	"github.com/hydraide/hydraide/app/core/hydra/swamp/treasure"
	"github.com/hydraide/hydraide/app/core/hydra/swamp/treasure/guard"
	"github.com/hydraide/hydraide/app/name"
	"github.com/hydraide/hydraide/app/verifhook"
)

func init() {
	Register("C23", Domain{Gen: c23Gen, Run: c23Run})
	Register("C23worker", Domain{Gen: func(*rand.Rand, string, *bufio.Writer) {}, Run: c23Worker})
}

// the V1 engine prints debug lines with fmt.Println, and /verif/check merges the generator's stderr into the
// op stream: both go to /dev/null (the op / reply writer keeps the original stdout)
func c23Quiet() {
	slog.SetDefault(slog.New(slog.NewTextHandler(io.Discard, nil)))
	if null, err := os.OpenFile(os.DevNull, os.O_WRONLY, 0); err == nil {
		if os.Getenv("C23_DEBUG") == "" {
			os.Stderr = null
		}
		os.Stdout = null
	}
}

// ---- building a folder with the real V1 engine ---------------------------------------

type c23V1 struct {
	path string
	ch   chronicler.Chronicler
	meta metadata.Metadata
	live map[string]treasure.Treasure // what the swamp would hold in memory
	seq  int
}

func c23NewV1(path, swampName string, maxFileSize int64) *c23V1 {
	fs := filesystem.New()
	meta := metadata.New(path)
	meta.LoadFromFile()
	parts := strings.Split(swampName, "/")
	meta.SetSwampName(name.New().Sanctuary(parts[0]).Realm(parts[1]).Swamp(parts[2]))
	v := &c23V1{path: path, meta: meta, live: map[string]treasure.Treasure{}}
	v.ch = chronicler.New(path, maxFileSize, 10, fs, meta)
	v.ch.CreateDirectoryIfNotExists()
	// the swamp's FilePointerCallbackFunction: remember where each treasure lives
	v.ch.RegisterFilePointerFunction(func(evs []*chronicler.FileNameEvent) error {
		for _, e := range evs {
			if t := v.live[e.TreasureKey]; t != nil {
				g := t.StartTreasureGuard(true, guard.BodyAuthID)
				t.BodySetFileName(g, e.FileName)
				t.ReleaseTreasureGuard(g)
			}
		}
		return nil
	})
	return v
}

// one swamp write cycle: upserts (key → content) and deletes
func (v *c23V1) save(upserts [][2]string, deletes []string) {
	var batch []treasure.Treasure
	for _, kv := range upserts {
		t := v.live[kv[0]]
		if t == nil {
			t = treasure.New(nil)
			g := t.StartTreasureGuard(true, guard.BodyAuthID)
			t.BodySetKey(g, kv[0])
			t.ReleaseTreasureGuard(g)
			v.live[kv[0]] = t
		}
		g := t.StartTreasureGuard(true, guard.BodyAuthID)
		t.SetContentString(g, kv[1])
		t.ReleaseTreasureGuard(g)
		batch = append(batch, t)
	}
	for _, k := range deletes {
		t := v.live[k]
		if t == nil {
			continue
		}
		delete(v.live, k)
		if t.GetFileName() == nil {
			continue // never reached the disk as far as the swamp knows (deleteHandler drops it from the queue)
		}
		g := t.StartTreasureGuard(true, guard.BodyAuthID)
		t.BodySetForDeletion(g, "system", false)
		t.ReleaseTreasureGuard(g)
		batch = append(batch, t)
	}
	if len(batch) > 0 {
		v.ch.Write(batch)
	}
	v.meta.SaveToFile()
}

// ---- reading a folder at record level, independently of both engines -----------------

type c23Seg struct{ key, hash string }
type c23File struct {
	name string
	segs []c23Seg
}

func c23Hash(b []byte) string { h := sha1.Sum(b); return hex.EncodeToString(h[:5]) }

// identity of a stored record: the whole gob model except the file-name pointer, which is bookkeeping
// of the engine that loaded the record, not stored data
func c23ModelHash(gobBytes []byte) string {
	var m treasure.Model
	if err := gob.NewDecoder(bytes.NewReader(gobBytes)).Decode(&m); err != nil {
		return "decode-error"
	}
	m.FileName = nil
	var buf bytes.Buffer
	_ = gob.NewEncoder(&buf).Encode(&m)
	return c23Hash(buf.Bytes())
}

func c23ReadFolder(path string) ([]c23File, error) {
	ents, err := os.ReadDir(path)
	if err != nil {
		return nil, err
	}
	var out []c23File
	for _, e := range ents { // os.ReadDir sorts by name
		if e.IsDir() {
			continue
		}
		f := c23File{name: e.Name()}
		if e.Name() != metadata.MetaFile {
			raw, err := os.ReadFile(filepath.Join(path, e.Name()))
			if err != nil {
				return nil, err
			}
			if len(raw) > 0 {
				dec, err := snappy.Decode(nil, raw)
				if err != nil {
					return nil, fmt.Errorf("%s: %v", e.Name(), err)
				}
				for off := 0; off+4 <= len(dec); {
					n := int(binary.LittleEndian.Uint32(dec[off:]))
					off += 4
					if off+n > len(dec) {
						return nil, fmt.Errorf("%s: truncated segment", e.Name())
					}
					seg := dec[off : off+n]
					off += n
					var m treasure.Model
					if err := gob.NewDecoder(bytes.NewReader(seg)).Decode(&m); err != nil {
						return nil, fmt.Errorf("%s: gob: %v", e.Name(), err)
					}
					f.segs = append(f.segs, c23Seg{m.Key, c23ModelHash(seg)})
				}
			}
		}
		out = append(out, f)
	}
	return out, nil
}

func c23FolderText(fs []c23File) string {
	var parts []string
	for _, f := range fs {
		var ss []string
		for _, s := range f.segs {
			if len(s.key) > 200 { // L<length>x<hash of the key>: the model needs the length only
				ss = append(ss, fmt.Sprintf("L%dx%s=%s", len(s.key), c23Hash([]byte(s.key)), s.hash))
				continue
			}
			ss = append(ss, hex.EncodeToString([]byte(s.key))+"="+s.hash)
		}
		parts = append(parts, f.name+":"+strings.Join(ss, ","))
	}
	return strings.Join(parts, ";")
}

// canonical record of a loaded treasure: the gob bytes the engine itself would persist
func c23Canon(b beacon.Beacon) map[string]string {
	out := map[string]string{}
	for k, t := range b.GetAll() {
		g := t.StartTreasureGuard(true, guard.BodyAuthID)
		bs, err := t.ConvertToByte(g)
		t.ReleaseTreasureGuard(g)
		if err != nil {
			out[k] = "convert-error"
			continue
		}
		out[k] = c23ModelHash(bs)
	}
	return out
}

func c23LoadV1(path string) map[string]string {
	fs := filesystem.New()
	meta := metadata.New(path)
	ch := chronicler.New(path, 8192, 10, fs, meta)
	b := beacon.New()
	ch.Load(b)
	return c23Canon(b)
}

func c23LoadV2(path string) map[string]string {
	ch := chronicler.NewV2(path, 10)
	b := beacon.New()
	ch.Load(b)
	m := c23Canon(b)
	_ = ch.Close()
	return m
}

// ---- generator ----------------------------------------------------------------------

// a scratch area of its own for every run (two runs with the same seed must not share folders); checks/C23.py removes it
// when nothing failed, and what an interrupted run left behind goes after six hours
func c23Base(seed int64, tier string) string {
	if old, err := filepath.Glob(filepath.Join(os.TempDir(), "hv-c23-*")); err == nil {
		for _, o := range old {
			if st, err := os.Stat(o); err == nil && time.Since(st.ModTime()) > 6*time.Hour {
				_ = os.RemoveAll(o)
			}
		}
	}
	dir, err := os.MkdirTemp("", fmt.Sprintf("hv-c23-%d-%s-", seed, tier))
	if err != nil {
		dir = filepath.Join(os.TempDir(), fmt.Sprintf("hv-c23-%d-%s-%d", seed, tier, os.Getpid()))
		_ = os.MkdirAll(dir, 0o755)
	}
	return dir
}

// the swamp name as stored in the V1 meta file, decoded by the harness itself
func c23MetaName(swamp string) (string, bool) {
	fh, err := os.Open(filepath.Join(swamp, metadata.MetaFile))
	if err != nil {
		return "", false
	}
	defer fh.Close()
	var m struct{ SwampName string }
	if err := gob.NewDecoder(fh).Decode(&m); err != nil {
		return "", false
	}
	return m.SwampName, true
}

// swamp names: the name is free text for the migrator — case, non-ASCII bytes and length must survive
func c23Name(rng *rand.Rand, ci int) string {
	switch ci % 5 {
	case 1:
		return fmt.Sprintf("C23/CaSe/MixedCase-N%d", ci)
	case 2:
		return fmt.Sprintf("c23-ügyfél/Ünnep-日本/ñ%d-ÅÄÖ-İı", ci)
	case 3:
		return fmt.Sprintf("%s/%s/n%d", strings.Repeat("Sanctuary", 20+rng.Intn(40)), strings.Repeat("r", 255), ci)
	case 4:
		return fmt.Sprintf("c23.%d/Case_%d/n-%d~+=@", ci, ci, ci)
	}
	return fmt.Sprintf("c23/case/n%d", ci)
}

// c23AppendRaw appends a hand-made record to the first chunk of a folder, bypassing the swamp's bookkeeping
func c23AppendRaw(swamp, key, content string) {
	t := treasure.New(nil)
	g := t.StartTreasureGuard(true, guard.BodyAuthID)
	t.BodySetKey(g, key)
	t.SetContentString(g, content)
	bs, _ := t.ConvertToByte(g)
	t.ReleaseTreasureGuard(g)
	fsys := filesystem.New()
	ents, _ := os.ReadDir(swamp)
	for _, e := range ents {
		if e.Name() != metadata.MetaFile {
			_ = fsys.SaveFile(filepath.Join(swamp, e.Name()), [][]byte{bs}, true)
			break
		}
	}
}

func c23Gen(rng *rand.Rand, tier string, w *bufio.Writer) {
	c23Quiet()
	nFolders, maxSaves := 60, 10
	if tier == "thorough" {
		nFolders, maxSaves = 160, 30
	}
	seed := rng.Int63() // names the scratch area; all other choices come from rng as well
	base := c23Base(seed%100000, tier)
	combos := [][3]int{}
	for v := 0; v < 2; v++ {
		for d := 0; d < 2; d++ {
			for r := 0; r < 2; r++ {
				combos = append(combos, [3]int{v, d, r})
			}
		}
	}
	var roots []string
	for ci := 0; ci < nFolders; ci++ {
		kind := "history"
		switch {
		case ci == 0:
			kind = "empty"
		case ci == 1:
			kind = "overflow" // the recorded chunk-overflow history
		case ci == 3:
			kind = "badkey-empty" // hand-made: a record with an empty key (the V2 format cannot carry it)
		case ci == 4:
			kind = "badkey-long" // hand-made: a record with a key of 70000 bytes (the V2 key length field has 16 bits)
		case ci == 5:
			kind = "longname" // a swamp name of 70000 bytes (the V2 name length field has 16 bits)
		case ci%9 == 2:
			kind = "synthetic-dup" // hand-made: a key twice inside one chunk
		}
		dir := filepath.Join(base, fmt.Sprintf("case-%03d", ci), "data", "1", "ab", "cd")
		swamp := filepath.Join(dir, "swamp")
		nm := c23Name(rng, ci)
		if kind == "longname" {
			nm = strings.Repeat("N", 30000) + "/" + strings.Repeat("a", 30000) + "/" + strings.Repeat("m", 10000)
		}
		sizes := []int64{40, 120, 400, 8192}
		mfs := sizes[rng.Intn(len(sizes))]
		saves := 0
		switch kind {
		case "empty":
			v := c23NewV1(swamp, nm, mfs)
			v.save(nil, nil)
		case "overflow":
			mfs = 40
			v := c23NewV1(swamp, nm, mfs)
			var up [][2]string
			for i := 0; i < 12; i++ {
				up = append(up, [2]string{fmt.Sprintf("k%02d", i), strings.Repeat("x", 30)})
			}
			v.save(up, nil)
			// rewrite every key once more: the ones whose pointer was lost are appended again
			for i := range up {
				up[i][1] = "second-" + up[i][0]
			}
			v.save(up, nil)
			saves = 2
		case "synthetic-dup":
			v := c23NewV1(swamp, nm, 8192)
			v.save([][2]string{{"a", "1"}, {"b", "1"}}, nil)
			// append a second version of "a" to the same chunk, bypassing the swamp's bookkeeping
			c23AppendRaw(swamp, "a", "2")
			saves = 2
		case "badkey-empty", "badkey-long":
			v := c23NewV1(swamp, nm, 8192)
			v.save([][2]string{{"a", "1"}, {"b", "1"}}, nil)
			if kind == "badkey-empty" {
				c23AppendRaw(swamp, "", "x")
			} else {
				c23AppendRaw(swamp, strings.Repeat("K", 70000), "x")
			}
			saves = 2
		case "longname":
			v := c23NewV1(swamp, nm, 8192)
			v.save([][2]string{{"a", "1"}, {"b", "1"}}, nil)
			saves = 1
		default:
			v := c23NewV1(swamp, nm, mfs)
			nKeys := 2 + rng.Intn(24)
			saves = 1 + rng.Intn(maxSaves)
			for s := 0; s < saves; s++ {
				var up [][2]string
				var del []string
				for j := 1 + rng.Intn(8); j > 0; j-- {
					k := fmt.Sprintf("key-%02d", rng.Intn(nKeys))
					dup := false
					for _, u := range up {
						if u[0] == k {
							dup = true
						}
					}
					if dup {
						continue
					}
					if rng.Intn(6) == 0 {
						del = append(del, k)
						continue
					}
					v.seq++
					up = append(up, [2]string{k, fmt.Sprintf("v%d-%s", v.seq, strings.Repeat("p", rng.Intn(60)))})
				}
				v.save(up, del)
			}
		}
		fmt.Fprintf(w, "case %d %s maxFileSize=%d saves=%d\n", ci, kind, mfs, saves)
		fo, err := c23ReadFolder(swamp)
		if err != nil {
			fmt.Fprintf(w, "gen-error %v\n", err)
			continue
		}
		if onDisk, ok := c23MetaName(swamp); !ok || onDisk != nm {
			fmt.Fprintf(w, "gen-error the V1 engine stored another swamp name than the one it was given (%d bytes vs %d)\n", len(onDisk), len(nm))
			continue
		}
		opName := nm
		if len(nm) > 1000 { // L<length>x<hash>: the model needs the length only; the runner reads the name from the meta file
			opName = fmt.Sprintf("L%dx%s", len(nm), c23Hash([]byte(nm)))
		}
		tail := fmt.Sprintf("| name=%s | folder=%s", opName, c23FolderText(fo))
		root := filepath.Dir(filepath.Dir(filepath.Dir(filepath.Dir(dir)))) // …/case-NNN
		// every option combination without a fault
		for _, c := range combos {
			fmt.Fprintf(w, "mig %s v=%d d=%d r=%d fault=none pre=none %s\n", root, c[0], c[1], c[2], tail)
		}
		// the re-run: an earlier run without DeleteOld, then this one (the target then holds exactly the legacy data)
		for _, c := range [][3]int{{1, 1, 0}, {0, 1, 0}, {1, 0, 0}, {1, 1, 1}} {
			fmt.Fprintf(w, "mig %s v=%d d=%d r=%d fault=rerun pre=none %s\n", root, c[0], c[1], c[2], tail)
		}
		roots = append(roots, root)
		// a target path that is not free: every third folder (and the special ones), with and without a failure
		if ci%3 == 1 || ci < 6 {
			pres := []string{"valid", "stub", "junk"}
			if kind == "history" {
				pres = append(pres, "newer")
			}
			for _, pre := range pres {
				for _, c := range [][3]int{{1, 1, 0}, {0, 1, 0}, {1, 0, 0}, {1, 1, 1}} {
					fmt.Fprintf(w, "mig %s v=%d d=%d r=%d fault=none pre=%s %s\n", root, c[0], c[1], c[2], pre, tail)
				}
				if pre != "junk" {
					if tier == "thorough" || ci < 15 {
						fmt.Fprintf(w, "mig %s v=1 d=1 r=0 fault=write:3 pre=%s %s\n", root, pre, tail)
					}
					fmt.Fprintf(w, "mig %s v=1 d=1 r=0 fault=dropkey pre=%s %s\n", root, pre, tail)
				}
			}
		}
		// a verification that really misses a key (in-process: the hook between write and verify swaps the file)
		if ci%2 == 1 || ci < 6 {
			for _, c := range [][3]int{{1, 1, 0}, {1, 0, 0}} {
				fmt.Fprintf(w, "mig %s v=%d d=%d r=%d fault=dropkey pre=none %s\n", root, c[0], c[1], c[2], tail)
			}
		}
		// injected failures (each on the combinations where the step exists)
		nChunks := len(fo)
		faults := []string{"write:1", "write:2", "write:3", "fsync", "syncorder", "verify", "meta", "rmdir"}
		nData := nChunks - 1 // chunk files besides the meta file
		if nData >= 1 {
			faults = append(faults, "load")
			ks := []int{nData - 1}
			if tier == "thorough" { // first, second, middle, last chunk
				ks = c23Picks(nData)
			}
			for _, k := range ks {
				faults = append(faults, fmt.Sprintf("load:%d", k), fmt.Sprintf("read:%d", k))
			}
		}
		uks := []int{0, 1, 2}
		if tier == "thorough" {
			uks = c23Picks(nChunks)
		}
		for _, k := range uks {
			if k < nChunks {
				faults = append(faults, fmt.Sprintf("unlink:%d", k))
			}
		}
		if tier != "thorough" && !(ci < 15 && ci%3 == 1) {
			continue // quick tier: fault runs (one strace'd process each) on five folders
		}
		if tier == "thorough" && ci > 8 && ci%4 != 1 {
			continue // thorough tier: the first nine folders and every fourth after them
		}
		fcombos := [][3]int{{1, 1, 0}, {0, 1, 0}, {1, 0, 0}}
		if tier != "thorough" {
			fcombos = fcombos[:2] // every fault run is a worker process (most under strace)
		}
		for _, ft := range faults {
			for _, c := range fcombos {
				if ft == "verify" && c[0] == 0 {
					continue
				}
				if ft == "syncorder" && c[1] == 0 {
					continue
				}
				if (strings.HasPrefix(ft, "unlink") || ft == "rmdir") && c[1] == 0 {
					continue
				}
				fmt.Fprintf(w, "mig %s v=%d d=%d r=%d fault=%s pre=none %s\n", root, c[0], c[1], c[2], ft, tail)
			}
		}
	}
	// several swamps in one run, with a worker pool: every swamp must end as it does alone
	if len(roots) > 0 {
		n := min(len(roots), 16)
		if tier == "thorough" {
			n = min(len(roots), 60)
		}
		fmt.Fprintln(w, "case multi several swamps in one data directory")
		for _, c := range [][4]int{{4, 1, 1, 0}, {1, 1, 1, 0}, {8, 0, 1, 0}, {4, 1, 0, 0}, {4, 1, 1, 1}} {
			fmt.Fprintf(w, "multi par=%d v=%d d=%d r=%d n=%d | %s\n", c[0], c[1], c[2], c[3], n, strings.Join(roots[:n], " "))
		}
	}
}

// first, second, middle and last of n positions
func c23Picks(n int) []int {
	var out []int
	for _, k := range []int{0, 1, n / 2, n - 1} {
		dup := k < 0 || k >= n
		for _, o := range out {
			if o == k {
				dup = true
			}
		}
		if !dup {
			out = append(out, k)
		}
	}
	return out
}

// ---- runner ----------------------------------------------------------------------------

const c23PreName = "other/swamp/name"

// c23Plant puts a file at the target path before the migration
func c23Plant(hyd, kind, swampName string, fo []c23File) {
	switch kind {
	case "valid":
		// what a V2 engine leaves after an earlier migration without DeleteOld: another name in the header, a record the
		// folder does not have, and a newer value of the first key the folder has
		w, err := v2.NewFileWriterWithName(hyd, v2.DefaultMaxBlockSize, c23PreName)
		if err != nil {
			return
		}
		mk := func(key string) []byte {
			t := treasure.New(nil)
			g := t.StartTreasureGuard(true, guard.BodyAuthID)
			t.BodySetKey(g, key)
			t.SetContentString(g, "written-by-the-v2-engine")
			bs, _ := t.ConvertToByte(g)
			t.ReleaseTreasureGuard(g)
			return bs
		}
		_ = w.WriteEntry(v2.Entry{Operation: v2.OpInsert, Key: "zz-only-in-v2", Data: mk("zz-only-in-v2")})
		for _, f := range fo {
			if len(f.segs) > 0 && f.segs[0].key != "" && len(f.segs[0].key) < 1000 {
				_ = w.WriteEntry(v2.Entry{Operation: v2.OpInsert, Key: f.segs[0].key, Data: mk(f.segs[0].key)})
				break
			}
		}
		_ = w.Close()
	case "newer":
		// an earlier run without DeleteOld, after which a V2 engine rewrote one key: same name, same keys, one newer value
		_ = c23Migrate(filepath.Dir(filepath.Dir(filepath.Dir(filepath.Dir(hyd)))), false, false, false)
		w, err := v2.NewFileWriterWithName(hyd, v2.DefaultMaxBlockSize, swampName)
		if err != nil {
			return
		}
		for _, f := range fo {
			if len(f.segs) > 0 {
				t := treasure.New(nil)
				g := t.StartTreasureGuard(true, guard.BodyAuthID)
				t.BodySetKey(g, f.segs[0].key)
				t.SetContentString(g, "rewritten-by-the-v2-engine")
				bs, _ := t.ConvertToByte(g)
				t.ReleaseTreasureGuard(g)
				_ = w.WriteEntry(v2.Entry{Operation: v2.OpUpdate, Key: f.segs[0].key, Data: bs})
				break
			}
		}
		_ = w.Close()
	case "stub":
		if len(swampName) > 65535 {
			swampName = swampName[:100]
		}
		if w, err := v2.NewFileWriterWithName(hyd, v2.DefaultMaxBlockSize, swampName); err == nil {
			_ = w.Close()
		}
	case "junk":
		_ = os.WriteFile(hyd, []byte("not-a-hyd!"), 0o644)
	}
}

// fault=dropkey: the handler of hook migrate.written replaces the file just written by a valid one without its last key
var c23Drop sync.Map // .hyd path → true

func c23DropKey(hyd string) {
	r, err := v2.NewFileReader(hyd)
	if err != nil {
		return
	}
	nm := r.GetSwampName()
	var es []v2.Entry
	_, _ = r.ReadAllEntries(func(e v2.Entry) bool { es = append(es, e); return true })
	_ = r.Close()
	if len(es) == 0 {
		return
	}
	victim := es[len(es)-1].Key
	_ = os.Remove(hyd)
	w, err := v2.NewFileWriterWithName(hyd, v2.DefaultMaxBlockSize, nm)
	if err != nil {
		return
	}
	for _, e := range es {
		if e.Key != victim {
			_ = w.WriteEntry(e)
		}
	}
	_ = w.Close()
}

func c23Hook() {
	verifhook.SetHandler(func(name string, args ...any) {
		if os.Getenv("C23_DEBUG") != "" {
			fmt.Fprintln(os.Stderr, "C23 hook", name, args)
		}
		if name != "migrate.written" || len(args) != 1 {
			return
		}
		if p, ok := args[0].(string); ok {
			if _, hit := c23Drop.LoadAndDelete(p); hit {
				c23DropKey(p)
			}
		}
	})
}

func c23CopyTree(src, dst string) error {
	return filepath.Walk(src, func(p string, info os.FileInfo, err error) error {
		if err != nil {
			return err
		}
		rel, _ := filepath.Rel(src, p)
		t := filepath.Join(dst, rel)
		if info.IsDir() {
			return os.MkdirAll(t, 0o755)
		}
		b, err := os.ReadFile(p)
		if err != nil {
			return err
		}
		return os.WriteFile(t, b, 0o644)
	})
}

func c23FindSwamp(root string) string {
	var found string
	_ = filepath.Walk(root, func(p string, info os.FileInfo, err error) error {
		if err == nil && info.IsDir() && filepath.Base(p) == "swamp" {
			found = p
		}
		return nil
	})
	return found
}

func c23DirState(path string) map[string]string {
	out := map[string]string{}
	ents, err := os.ReadDir(path)
	if err != nil {
		return nil
	}
	for _, e := range ents {
		b, _ := os.ReadFile(filepath.Join(path, e.Name()))
		out[e.Name()] = c23Hash(b)
	}
	return out
}

// the migration itself (also the body of the strace'd worker)
func c23Migrate(dataPath string, v, d, r bool) string {
	m, err := migrator.New(migrator.Config{DataPath: dataPath, Verify: v, DeleteOld: d, DryRun: r, Parallel: 1, StopOnError: false})
	if err != nil {
		return "failed:new"
	}
	res, err := m.Run()
	if err != nil || res == nil {
		return "failed:run"
	}
	switch {
	case len(res.FailedSwamps) > 0:
		return "failed:" + res.FailedSwamps[0].Phase
	case res.EmptySwampsSkipped > 0:
		return "skipped"
	case res.SuccessfulSwamps > 0:
		return "success"
	}
	return "nothing"
}

func c23Worker(in *bufio.Scanner, w *bufio.Writer) {
	c23Quiet()
	for in.Scan() {
		f := strings.Fields(in.Text())
		if len(f) != 5 {
			continue
		}
		var fsize uint64
		fmt.Sscanf(f[4], "fsize=%d", &fsize)
		if fsize > 0 {
			// a genuine short write followed by EFBIG at a chosen byte offset of the .hyd file
			signal.Ignore(syscall.SIGXFSZ)
			var lim syscall.Rlimit
			if err := syscall.Getrlimit(syscall.RLIMIT_FSIZE, &lim); err == nil {
				lim.Cur = fsize
				_ = syscall.Setrlimit(syscall.RLIMIT_FSIZE, &lim)
			}
		}
		fmt.Fprintln(w, c23Migrate(f[0], f[1] == "1", f[2] == "1", f[3] == "1"))
		w.Flush()
	}
}

// c23Child runs the migration in a worker process, under strace when a syscall is to fail.
// Every injection is `when=1` on one path: strace counts per thread, and a Go program may move between threads.
func c23Child(dataPath, swamp string, v, d, r string, fault string, files []string, chunks []string, name string, preSize int) string {
	exe, _ := os.Executable()
	hyd := swamp + ".hyd"
	var st []string
	fsize := 0
	switch {
	case fault == "load":
		st = []string{"-e", "trace=openat", "-e", "inject=openat:error=EIO:when=1", "-P", filepath.Join(swamp, chunks[0])}
	case strings.HasPrefix(fault, "load:"), strings.HasPrefix(fault, "read:"):
		// the k-th chunk cannot be opened / cannot be read
		var k int
		fmt.Sscanf(fault[5:], "%d", &k)
		if k >= len(chunks) {
			k = len(chunks) - 1
		}
		if strings.HasPrefix(fault, "load:") {
			st = []string{"-e", "trace=openat", "-e", "inject=openat:error=EIO:when=1", "-P", filepath.Join(swamp, chunks[k])}
		} else {
			st = []string{"-e", "trace=read,pread64", "-e", "inject=read,pread64:error=EIO:when=1", "-P", filepath.Join(swamp, chunks[k])}
		}
	case fault == "meta": // the meta file (the only place the swamp name is stored) cannot be opened
		st = []string{"-e", "trace=openat", "-e", "inject=openat:error=EIO:when=1+", "-P", filepath.Join(swamp, metadata.MetaFile)}
	case fault == "rmdir": // every file goes, removing the folder itself fails (both the unlink and the rmdir attempt)
		st = []string{"-e", "trace=unlinkat,unlink,rmdir", "-e", "inject=unlinkat,unlink,rmdir:error=EIO:when=1+", "-P", swamp}
	case fault == "write:1": // the file header, inside NewFileWriterWithName
		st = []string{"-e", "trace=write,pwrite64", "-e", "inject=write,pwrite64:error=EIO:when=1", "-P", hyd}
	case fault == "write:2": // the swamp name after the header, still inside NewFileWriterWithName
		fsize = 64 + len(name)/2
	case fault == "write:3" && preSize > 0: // appending to a file that was there: the first block
		fsize = preSize + 8
	case fault == "write:3": // the first block
		fsize = 64 + len(name) + 8
	case fault == "fsync": // FileWriter.Close cannot make the new file durable
		st = []string{"-e", "trace=fsync,fdatasync", "-e", "inject=fsync,fdatasync:error=EIO:when=1", "-P", hyd}
	case fault == "verify": // the writer never reads the .hyd file: the first read of that path is the verifying reader
		st = []string{"-e", "trace=read,pread64", "-e", "inject=read,pread64:error=EIO:when=1", "-P", hyd}
	case strings.HasPrefix(fault, "unlink:"):
		var k int
		fmt.Sscanf(fault, "unlink:%d", &k)
		if k >= len(files) {
			k = len(files) - 1
		}
		st = []string{"-e", "trace=unlinkat,unlink", "-e", "inject=unlinkat,unlink:error=EIO:when=1", "-P", filepath.Join(swamp, files[k])}
	}
	var cmd *exec.Cmd
	traceFile := ""
	if fault == "syncorder" {
		// no injection: the order of the system calls is observed — the new file must be fsync'ed before the first V1 file is unlinked
		traceFile = filepath.Join(filepath.Dir(dataPath), "syscalls.txt")
		cmd = exec.Command("strace", "-f", "-y", "-o", traceFile, "-e", "trace=fsync,fdatasync,unlink,unlinkat", exe, "run", "C23worker")
	} else if st != nil {
		args := append([]string{"-f", "--seccomp-bpf", "-o", "/dev/null"}, st...)
		cmd = exec.Command("strace", append(args, exe, "run", "C23worker")...)
	} else {
		cmd = exec.Command(exe, "run", "C23worker")
	}
	cmd.Stdin = strings.NewReader(fmt.Sprintf("%s %s %s %s fsize=%d\n", dataPath, v, d, r, fsize))
	var out, errb bytes.Buffer
	cmd.Stdout, cmd.Stderr = &out, &errb
	if err := cmd.Run(); err != nil && out.Len() == 0 {
		return "child-error:" + strings.ReplaceAll(strings.TrimSpace(errb.String()), " ", "_")
	}
	if traceFile != "" {
		tb, _ := os.ReadFile(traceFile)
		synced, bad := false, false
		for _, l := range strings.Split(string(tb), "\n") {
			switch {
			case (strings.Contains(l, "fsync(") || strings.Contains(l, "fdatasync(")) && strings.Contains(l, ".hyd>") && !strings.Contains(l, "= -1"):
				// (with -f a call may be printed as `<unfinished ...>` + `resumed`: the writer does not return from Close before it is back)
				synced = true
			case strings.Contains(l, "unlink") && strings.Contains(l, filepath.Base(swamp)+"/") && !synced:
				bad = true
			}
		}
		if bad {
			return strings.TrimSpace(out.String()) + "|unsynced"
		}
	}
	return strings.TrimSpace(out.String())
}

func c23Run(in *bufio.Scanner, w *bufio.Writer) {
	c23Quiet()
	c23Hook()
	defer verifhook.SetHandler(nil)
	scratch, _ := os.MkdirTemp("", "hv-c23-run-")
	defer os.RemoveAll(scratch)
	var lines []string
	for in.Scan() {
		lines = append(lines, in.Text())
	}
	out := make([]string, len(lines))
	// every migration works on its own copy of its folder: run them on a small worker pool
	k := runtime.NumCPU() / 2 // most of the time goes to starting strace'd worker processes, which mostly wait
	if k < 1 {
		k = 1
	}
	if k > 10 {
		k = 10
	}
	jobs := make(chan int)
	var wg sync.WaitGroup
	for j := 0; j < k; j++ {
		wg.Add(1)
		go func() {
			defer wg.Done()
			for i := range jobs {
				if strings.HasPrefix(lines[i], "multi ") {
					out[i] = c23Multi(scratch, i, lines[i])
				} else {
					out[i] = c23One(scratch, i, lines[i])
				}
			}
		}()
	}
	for i, line := range lines {
		switch {
		case strings.HasPrefix(line, "case "):
			out[i] = line
		case strings.HasPrefix(line, "mig "), strings.HasPrefix(line, "multi "):
			jobs <- i
		default:
			out[i] = "bad-op"
		}
	}
	close(jobs)
	wg.Wait()
	for _, l := range out {
		fmt.Fprintln(w, l)
	}
}

var c23Seq int64 = 100000

// c23Multi: the swamps of several cases in ONE data directory, migrated by one run with `par` workers; every swamp is
// then assessed exactly as after a run of its own and must end in the same state
func c23Multi(scratch string, n int, line string) string {
	parts := strings.SplitN(line, " | ", 2)
	f := strings.Fields(parts[0])
	if len(parts) != 2 || len(f) != 6 {
		return "bad-op"
	}
	var par int
	fmt.Sscanf(f[1], "par=%d", &par)
	v, d, r := strings.TrimPrefix(f[2], "v=") == "1", strings.TrimPrefix(f[3], "d=") == "1", strings.TrimPrefix(f[4], "r=") == "1"
	srcs := strings.Fields(parts[1])
	root := filepath.Join(scratch, fmt.Sprintf("multi%05d", n))
	defer os.RemoveAll(root)
	type sw struct {
		src, swamp, name string
		before           map[string]string
		fo               []c23File
		v1               map[string]string
	}
	var sws []sw
	for i, src := range srcs {
		dst := filepath.Join(root, "data", fmt.Sprintf("c%03d", i))
		if err := c23CopyTree(filepath.Join(src, "data"), dst); err != nil {
			return "copy-error"
		}
		swamp := c23FindSwamp(dst)
		nm, ok := c23MetaName(swamp)
		fo, err := c23ReadFolder(swamp)
		if swamp == "" || !ok || err != nil {
			return "read-error"
		}
		sws = append(sws, sw{src, swamp, nm, c23DirState(swamp), fo, c23LoadV1(swamp)})
	}
	m, err := migrator.New(migrator.Config{DataPath: filepath.Join(root, "data"), Verify: v, DeleteOld: d, DryRun: r, Parallel: par, StopOnError: false})
	if err != nil {
		return "rig-error:new"
	}
	res, err := m.Run()
	if err != nil || res == nil {
		return "rig-error:run"
	}
	failed := map[string]string{}
	for _, fs := range res.FailedSwamps {
		failed[fs.Path] = fs.Phase
	}
	diff, first := 0, ""
	for _, x := range sws {
		records := 0
		for _, fl := range x.fo {
			records += len(fl.segs)
		}
		r1 := "success"
		if ph, bad := failed[x.swamp]; bad {
			r1 = "failed:" + ph
		} else if records == 0 {
			r1 = "skipped"
		}
		together := c23Assess(x.swamp, r1, x.before, x.fo, x.v1, x.name, "", 0, line)
		alone := c23One(scratch, int(atomic.AddInt64(&c23Seq, 1)), fmt.Sprintf("mig %s v=%s d=%s r=%s fault=none pre=none | name=x | folder=x", x.src,
			strings.TrimPrefix(f[2], "v="), strings.TrimPrefix(f[3], "d="), strings.TrimPrefix(f[4], "r=")))
		if together != alone {
			diff++
			if first == "" {
				first = fmt.Sprintf("%s:together[%s]alone[%s]", filepath.Base(x.src), strings.ReplaceAll(together, " ", ","), strings.ReplaceAll(alone, " ", ","))
			}
		}
	}
	if int64(len(sws)) != res.ProcessedSwamps {
		return fmt.Sprintf("multi n=%d diff=%d processed=%d", len(sws), diff+1, res.ProcessedSwamps)
	}
	if diff > 0 {
		return fmt.Sprintf("multi n=%d diff=%d first=%s", len(sws), diff, first)
	}
	return fmt.Sprintf("multi n=%d diff=0", len(sws))
}

func c23One(scratch string, n int, line string) string {
	parts := strings.Split(line, " | ")
	f := strings.Split(parts[0], " ")
	if len(f) != 7 || len(parts) != 3 {
		return "bad-op"
	}
	src, v, d, r, fault := f[1], strings.TrimPrefix(f[2], "v="), strings.TrimPrefix(f[3], "d="), strings.TrimPrefix(f[4], "r="), strings.TrimPrefix(f[5], "fault=")
	pre := strings.TrimPrefix(f[6], "pre=")
	root := filepath.Join(scratch, fmt.Sprintf("m%05d", n))
	if err := c23CopyTree(src, root); err != nil {
		return "copy-error"
	}
	defer os.RemoveAll(root)
	swamp := c23FindSwamp(root)
	if swamp == "" {
		return "no-swamp"
	}
	// the name to be preserved: what the V1 meta file holds, byte for byte
	wantName, ok := c23MetaName(swamp)
	if !ok {
		return "no-meta-name"
	}
	before := c23DirState(swamp)
	fo, err := c23ReadFolder(swamp)
	if err != nil {
		return "read-error"
	}
	v1 := c23LoadV1(swamp) // what the legacy engine loads (one of the possible results when keys repeat)
	var chunks []string
	for _, x := range fo {
		if x.name != metadata.MetaFile {
			chunks = append(chunks, x.name)
		}
	}
	hydPath := swamp + ".hyd"
	preHash, preSize := "", 0
	if pre != "none" {
		c23Plant(hydPath, pre, wantName, fo)
		if b, err := os.ReadFile(hydPath); err == nil {
			preHash, preSize = c23Hash(b), len(b)
		} else {
			return "plant-error"
		}
	}
	res, firstRes := "", ""
	switch {
	case fault == "none":
		res = c23Migrate(filepath.Join(root, "data"), v == "1", d == "1", r == "1")
	case fault == "rerun":
		// an earlier run of the same swamp without DeleteOld and without DryRun came first
		firstRes = strings.SplitN(c23Migrate(filepath.Join(root, "data"), v == "1", false, false), ":", 2)[0]
		res = c23Migrate(filepath.Join(root, "data"), v == "1", d == "1", r == "1")
	case fault == "dropkey":
		c23Drop.Store(hydPath, true)
		res = c23Migrate(filepath.Join(root, "data"), v == "1", d == "1", r == "1")
		c23Drop.Delete(hydPath)
	case (fault == "load" || strings.HasPrefix(fault, "load:") || strings.HasPrefix(fault, "read:")) && len(chunks) == 0:
		fault = "none"
		res = c23Migrate(filepath.Join(root, "data"), v == "1", d == "1", r == "1")
	default:
		var files []string
		for _, x := range fo {
			files = append(files, x.name)
		}
		res = c23Child(filepath.Join(root, "data"), swamp, v, d, r, fault, files, chunks, wantName, preSize)
	}
	unsynced := false
	if strings.HasSuffix(res, "|unsynced") {
		res, unsynced = strings.TrimSuffix(res, "|unsynced"), true
	}
	out := c23Assess(swamp, res, before, fo, v1, wantName, preHash, preSize, line)
	if unsynced {
		out = strings.Replace(out, " hyd=1 ", " hyd=unsynced ", 1)
	}
	if firstRes != "" {
		out += " first=" + firstRes
	}
	return out
}

// c23Assess: what is on disk after the run, against what was there before
func c23Assess(swamp, res string, before map[string]string, fo []c23File, v1 map[string]string, wantName, preHash string, preSize int, line string) string {
	hydPath := swamp + ".hyd"
	// V1 files afterwards
	after := c23DirState(swamp)
	v1st := "same"
	switch {
	case after == nil:
		v1st = "gone"
	case len(after) != len(before):
		v1st = fmt.Sprintf("left:%d", len(after))
	default:
		for k, h := range before {
			if after[k] != h {
				v1st = "modified"
			}
		}
	}
	hyd := "0"
	load, nameRes := "none", "na"
	if b, err := os.ReadFile(hydPath); err == nil && preHash != "" && c23Hash(b) == preHash && len(b) == preSize {
		// the file that was there before the run is still there, untouched
		return fmt.Sprintf("res=%s v1=%s hyd=kept load=none name=na", res, v1st)
	}
	if _, err := os.Stat(swamp + ".hyd"); err == nil {
		hyd = "1"
		if strings.HasPrefix(res, "failed") {
			// a file left behind by a failed migration is not loaded: whatever it holds, it should not be there
			return fmt.Sprintf("res=%s v1=%s hyd=1 load=partial name=partial", res, v1st)
		}
		got := c23LoadV2(swamp)
		// candidates per key: the last value of each chunk that holds the key
		cand := map[string]map[string]bool{}
		total := map[string]int{}
		for _, x := range fo {
			last := map[string]string{}
			for _, s := range x.segs {
				last[s.key] = s.hash
				total[s.key]++
			}
			for k, h := range last {
				if cand[k] == nil {
					cand[k] = map[string]bool{}
				}
				cand[k][h] = true
			}
		}
		multi := false
		for _, c := range total {
			if c > 1 {
				multi = true
			}
		}
		var diffs []string
		if !multi {
			for k, h := range v1 {
				if got[k] != h {
					diffs = append(diffs, k)
				}
			}
			for k := range got {
				if _, ok := v1[k]; !ok {
					diffs = append(diffs, "+"+k)
				}
			}
			load = "match"
		} else {
			for k, hs := range cand {
				if !hs[got[k]] {
					diffs = append(diffs, k)
				}
			}
			for k := range got {
				if cand[k] == nil {
					diffs = append(diffs, "+"+k)
				}
			}
			load = "dup-ok"
		}
		if len(diffs) > 0 {
			sort.Strings(diffs)
			fmt.Fprintf(os.Stderr, "C23 DIFF %s: %s\n", line, strings.Join(diffs, ","))
			load = "DIFF"
		}
		if nm, err := v2.ReadSwampName(swamp + ".hyd"); err == nil && nm == wantName {
			nameRes = "ok"
		} else {
			nameRes = "BAD"
		}
	}
	return fmt.Sprintf("res=%s v1=%s hyd=%s load=%s name=%s", res, v1st, hyd, load, nameRes)
}
