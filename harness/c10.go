package main

// Domain C10: replay of lockset findings under the race detector.
//
// ops:   case N race | race STRUCT FIELD | race control none
// reply: race STRUCT FIELD detected | clean | error:<why>
//
// `hx run C10` starts, per struct, one child process `$HX_RACE_BIN run C10CHILD` (the same harness built with
// `-race -tags verif`) that drives the two kinds of requests of the scenario concurrently against the in-process
// gateway.  "detected" = the child printed a race report ("WARNING: DATA RACE", exit code 66 with
// GORACE=halt_on_error=1) or died with the runtime's "fatal error: concurrent map …".
//   beacon    one goroutine inserts new keys (beacon.Add under b.mu), another calls GetAll (iterates the live map
//             returned by beacon.GetAll without the lock)
//   treasure  one goroutine overwrites one key (setters, under the record guard only), another reads it with Get
//             (getters, under t.mu.RLock only)
//   control   the same requests from one goroutine

import (
	"bufio"
	"context"
	"fmt"
	"math/rand"
	"os"
	"os/exec"
	"strings"
	"sync"
	"time"

	"github.com/hydraide/hydraide/app/core/settings"
	"github.com/hydraide/hydraide/app/name"
	hydrapb "github.com/hydraide/hydraide/sdk/go/hydraidego/v3/hydraidepbgo"
)

func init() {
	Register("C10", Domain{Gen: c10Gen, Run: c10Run})
	Register("C10CHILD", Domain{Gen: func(*rand.Rand, string, *bufio.Writer) {}, Run: c10Child})
}

func c10Gen(_ *rand.Rand, _ string, w *bufio.Writer) {
	// the check script writes the op list from the classification; this is the fixed part
	fmt.Fprintln(w, "case 0 race\nrace control none\nrace beacon treasuresByKeys\nrace treasure treasure\nrace bucket byValue\nrace swampBuckets buckets")
}

func c10Scenario(strct string) string {
	switch strct {
	case "beacon", "treasure", "control":
		return strct
	case "bucket", "bucketPending":
		return "bucket"
	case "swamp", "swampBuckets", "swampClose":
		return "swamp"
	}
	return ""
}

func c10Run(in *bufio.Scanner, w *bufio.Writer) {
	bin := os.Getenv("HX_RACE_BIN")
	cache := map[string]string{}
	for in.Scan() {
		line := strings.TrimSpace(in.Text())
		f := strings.Fields(line)
		if len(f) == 0 {
			fmt.Fprintln(w, "bad-op")
			continue
		}
		if f[0] == "case" {
			fmt.Fprintln(w, line)
			continue
		}
		if f[0] != "race" || len(f) != 3 {
			fmt.Fprintln(w, "bad-op")
			continue
		}
		sc := c10Scenario(f[1])
		if sc == "" {
			fmt.Fprintf(w, "race %s %s err:no-scenario\n", f[1], f[2])
			continue
		}
		res, ok := cache[sc]
		if !ok {
			res = c10Spawn(bin, sc)
			cache[sc] = res
		}
		fmt.Fprintf(w, "race %s %s %s\n", f[1], f[2], res)
		w.Flush()
	}
}

func c10Spawn(bin, scenario string) string {
	if bin == "" {
		return "err:HX_RACE_BIN-not-set"
	}
	ctx, cancel := context.WithTimeout(context.Background(), HxScale(240*time.Second))
	defer cancel()
	cmd := exec.CommandContext(ctx, bin, "run", "C10CHILD")
	cmd.Stdin = strings.NewReader("scenario " + scenario + "\n")
	cmd.Env = append(os.Environ(), "GORACE=halt_on_error=1 exitcode=66")
	out, err := cmd.CombinedOutput()
	text := string(out)
	if dir := os.Getenv("C10_LOG_DIR"); dir != "" {
		_ = os.WriteFile(dir+"/c10-"+scenario+".log", out, 0o644)
	}
	switch {
	case strings.Contains(text, "WARNING: DATA RACE"), strings.Contains(text, "fatal error: concurrent map"):
		return "detected"
	case ctx.Err() != nil:
		return "err:timeout"
	case err != nil:
		return "err:child-failed"
	case strings.Contains(text, "scenario-finished"):
		return "clean"
	}
	return "err:no-marker"
}

// ---- child (race build) ----------------------------------------------------

func c10Child(in *bufio.Scanner, w *bufio.Writer) {
	scenario := ""
	if in.Scan() {
		f := strings.Fields(in.Text())
		if len(f) == 2 && f[0] == "scenario" {
			scenario = f[1]
		}
	}
	rig, err := NewRig(3, 2000, 3600, 3600)
	if err != nil {
		fmt.Fprintln(w, "rig-error")
		return
	}
	rig.Settings.RegisterPattern(name.New().Sanctuary("c10").Realm("*").Swamp("*"), true, 3600, nil)
	_ = settings.FileSystemSettings{}
	swamp := name.New().Sanctuary("c10").Realm("r").Swamp(scenario).Get()
	set := func(k, v string) {
		_, _ = rig.GW.Set(context.Background(), &hydrapb.SetRequest{Swamps: []*hydrapb.SwampRequest{{IslandID: 1, SwampName: swamp,
			CreateIfNotExist: true, Overwrite: true, KeyValues: []*hydrapb.KeyValuePair{{Key: k, StringVal: &v}}}}})
	}
	get := func(k string) {
		_, _ = rig.GW.Get(context.Background(), &hydrapb.GetRequest{Swamps: []*hydrapb.GetSwamp{{IslandID: 1, SwampName: swamp, Keys: []string{k}}}})
	}
	getAll := func() {
		_, _ = rig.GW.GetAll(context.Background(), &hydrapb.GetAllRequest{IslandID: 1, SwampName: swamp})
	}
	for i := 0; i < 50; i++ {
		set(fmt.Sprintf("seed%03d", i), "v")
	}
	deadline := time.Now().Add(HxScale(3 * time.Second)) // length of the workload, not a limit
	var wg sync.WaitGroup
	run := func(f func(i int)) {
		wg.Add(1)
		go func() {
			defer wg.Done()
			for i := 0; time.Now().Before(deadline); i++ {
				f(i)
			}
		}()
	}
	switch scenario {
	case "beacon":
		run(func(i int) { set(fmt.Sprintf("k%06d", i), "v") })
		run(func(int) { getAll() })
	case "treasure":
		run(func(i int) { set("hot", fmt.Sprintf("v%d", i%7)) })
		run(func(int) { get("hot") })
	case "bucket":
		// field-bucket index: patches (insert / update notifications), deletes and filtered selections that build and
		// consult the bucket of field "status"
		path := "status"
		patch := func(k, v string) {
			_, _ = rig.GW.PatchTreasures(context.Background(), &hydrapb.PatchTreasuresRequest{IslandID: 1, SwampName: swamp, CreateIfNotExist: true,
				Patches: []*hydrapb.TreasurePatch{{Key: k, Ops: []*hydrapb.PatchOp{{Op: hydrapb.PatchOp_SET, Path: "status", Value: c11Mp(v)}}}}})
		}
		del := func(k string) {
			_, _ = rig.GW.Delete(context.Background(), &hydrapb.DeleteRequest{Swamps: []*hydrapb.DeleteRequest_SwampKeys{{IslandID: 1, SwampName: swamp, Keys: []string{k}}}})
		}
		sel := func() {
			_, _ = rig.GW.PatchExpiredTreasures(context.Background(), &hydrapb.PatchExpiredTreasuresRequest{IslandID: 1, SwampName: swamp, HowMany: 1,
				Ops: []*hydrapb.PatchOp{{Op: hydrapb.PatchOp_SET, Path: "status", Value: c11Mp("x")}},
				Filters: &hydrapb.FilterGroup{Logic: hydrapb.FilterLogic_AND, Filters: []*hydrapb.TreasureFilter{{
					BytesFieldPath: &path, Operator: hydrapb.Relational_EQUAL, CompareValue: &hydrapb.TreasureFilter_StringVal{StringVal: "nomatch"}}}}})
		}
		patch("keep", "a")
		run(func(i int) { patch(fmt.Sprintf("p%03d", i%40), []string{"a", "b", "c"}[i%3]) })
		run(func(i int) { del(fmt.Sprintf("p%03d", (i*7)%40)) })
		run(func(int) { sel() })
		run(func(int) { sel() })
	case "swamp":
		// swamp-level state: the last key comes and goes (auto-destroy, re-summon) under readers and a filtered selection
		path := "status"
		run(func(i int) { set("only", fmt.Sprintf("v%d", i%5)) })
		run(func(int) {
			_, _ = rig.GW.Delete(context.Background(), &hydrapb.DeleteRequest{Swamps: []*hydrapb.DeleteRequest_SwampKeys{{IslandID: 1, SwampName: swamp + "x", Keys: []string{"only"}}}})
		})
		run(func(int) { getAll() })
		run(func(int) {
			_, _ = rig.GW.PatchExpiredTreasures(context.Background(), &hydrapb.PatchExpiredTreasuresRequest{IslandID: 1, SwampName: swamp, HowMany: 1,
				Ops: []*hydrapb.PatchOp{{Op: hydrapb.PatchOp_SET, Path: "status", Value: c11Mp("x")}},
				Filters: &hydrapb.FilterGroup{Logic: hydrapb.FilterLogic_AND, Filters: []*hydrapb.TreasureFilter{{
					BytesFieldPath: &path, Operator: hydrapb.Relational_EQUAL, CompareValue: &hydrapb.TreasureFilter_StringVal{StringVal: "nomatch"}}}}})
		})
	default:
		for i := 0; i < 200; i++ {
			set(fmt.Sprintf("k%06d", i), "v")
			get("hot")
			getAll()
		}
	}
	wg.Wait()
	fmt.Fprintln(w, "scenario-finished")
	w.Flush()
}
