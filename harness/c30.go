package main

// expiry-aware requests of the shared kv runner (domain C30); see c06.go for the line protocol.

func (s *c06State) execC30(f []string, t0 int64) (string, bool) {
	return "", false
}
