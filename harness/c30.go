package main

// Domain C30: expiry-aware requests on top of the shared kv runner (harness/c06.go).
//
//   shiftexp N                 ShiftExpiredTreasures(HowMany N; 0 = all)      → shiftexp k=rec ...   (reply order)
//   patch C K META             PatchTreasures, one key, no ops, CreateIfNotExist=C;
//                              META = - | ua01|ub|ca01|cb|SETEXP|CLR01        → patch STATUS
//   patchexp N META            PatchExpiredTreasures(HowMany N, Meta)         → patchexp k=STATUS|exp ...
//   getidx asc|desc FROM LIMIT GetByIndex(EXPIRATION_TIME)                    → getidx k=rec ...
//   fexp OP TS                 GetByIndexStream(KEY asc, filter ExpiredAt OP TS, keys only) → fexp k ...
//                              OP in lt le gt ge eq ne empty notempty

import (
	"sync"
	"time"

	"github.com/hydraide/hydraide/app/verifhook"
	"bufio"
	"context"
	"fmt"
	"math/rand"
	"strconv"
	"strings"

	hydrapb "github.com/hydraide/hydraide/sdk/go/hydraidego/v3/hydraidepbgo"
	"google.golang.org/grpc"
	"google.golang.org/grpc/metadata"
)

func init() { Register("C30", Domain{Gen: c30Gen, Run: c06Run}) }

// in-process stand-in for the server side of a gRPC server stream
type c30Stream struct {
	grpc.ServerStream
	ctx  context.Context
	keys []string
}

func (s *c30Stream) Send(m *hydrapb.GetByIndexStreamResponse) error {
	m = c06Wire(m, &hydrapb.GetByIndexStreamResponse{})
	s.keys = append(s.keys, m.GetTreasure().GetKey())
	return nil
}
func (s *c30Stream) Context() context.Context     { return s.ctx }
func (s *c30Stream) SetHeader(metadata.MD) error  { return nil }
func (s *c30Stream) SendHeader(metadata.MD) error { return nil }
func (s *c30Stream) SetTrailer(metadata.MD)       {}
func (s *c30Stream) SendMsg(any) error            { return nil }
func (s *c30Stream) RecvMsg(any) error            { return nil }

func (s *c06State) patchMeta(tok string) *hydrapb.PatchMeta {
	if tok == "-" {
		return nil
	}
	f := strings.Split(tok, "|")
	for len(f) < 6 {
		f = append(f, "")
	}
	m := &hydrapb.PatchMeta{SetUpdatedAt: f[0] == "1", SetCreatedAt: f[2] == "1", ClearExpiredAt: f[5] == "1"}
	if f[1] != "" {
		m.SetUpdatedBy = &f[1]
	}
	if f[3] != "" {
		m.SetCreatedBy = &f[3]
	}
	if f[4] != "" {
		if f[4] == "a0" {
			m.SetExpiredAt = s.tsRaw(0)
		} else if t, ok := s.ts(f[4]); ok {
			m.SetExpiredAt = t
		}
	}
	return m
}

func c30FOp(op string) hydrapb.Relational_Operator {
	switch op {
	case "lt":
		return hydrapb.Relational_LESS_THAN
	case "le":
		return hydrapb.Relational_LESS_THAN_OR_EQUAL
	case "gt":
		return hydrapb.Relational_GREATER_THAN
	case "ge":
		return hydrapb.Relational_GREATER_THAN_OR_EQUAL
	case "eq":
		return hydrapb.Relational_EQUAL
	case "ne":
		return hydrapb.Relational_NOT_EQUAL
	case "empty":
		return hydrapb.Relational_IS_EMPTY
	}
	return hydrapb.Relational_IS_NOT_EMPTY
}

func (s *c06State) execC30(f []string, t0 int64) (string, bool) {
	gw := s.rig.GW
	ctx := context.Background()
	const island = 1
	sw := s.swamp
	switch f[0] {
	case "busyshift":
		// busyshift K N: ShiftExpiredTreasures(N) while an Increment of K holds K's record guard (parked at the
		// inc.acquired point).  The claim walk skips the busy record, which must stay in the expiry index;
		// the Increment then completes.  Reply: the shift reply, `;`, the increment reply.
		key := f[1]
		parked, release := make(chan struct{}), make(chan struct{})
		var once sync.Once
		verifhook.SetHandler(func(name string, args ...any) {
			if name == "inc.acquired" && len(args) > 0 && args[0] == key {
				first := false
				once.Do(func() { first = true })
				if first {
					close(parked)
					<-release
				}
			}
		})
		defer verifhook.SetHandler(nil)
		incDone := make(chan string, 1)
		go func() { incDone <- s.execInc([]string{"inc", "i64", key, "1", "-", "-", "-"}, t0) }()
		select {
		case <-parked:
		case r := <-incDone:
			close(release)
			return "busyshift notparked ; " + r, true
		case <-time.After(HxScale(10 * time.Second)):
			close(release)
			return "hang nopark", true
		}
		shift, _ := s.execC30([]string{"shiftexp", f[2]}, t0)
		close(release)
		return "busyshift" + strings.TrimPrefix(shift, "shiftexp") + " ; " + <-incDone, true
	case "shiftexp":
		n, _ := strconv.Atoi(f[1])
		resp, err := gw.ShiftExpiredTreasures(ctx, c06Wire(&hydrapb.ShiftExpiredTreasuresRequest{IslandID: island, SwampName: sw, HowMany: int32(n)}, &hydrapb.ShiftExpiredTreasuresRequest{}))
		if err != nil {
			return c06Err(err), true
		}
		if resp == nil {
			return "nilnil", true
		}
		resp = c06Wire(resp, &hydrapb.ShiftExpiredTreasuresResponse{})
		out := []string{"shiftexp"}
		for _, t := range resp.Treasures {
			out = append(out, t.Key+"="+s.rec(t))
		}
		return strings.Join(out, " "), true
	case "patch":
		req := &hydrapb.PatchTreasuresRequest{IslandID: island, SwampName: sw, CreateIfNotExist: f[1] == "1",
			Patches: []*hydrapb.TreasurePatch{{Key: f[2], Meta: s.patchMeta(f[3])}}}
		resp, err := gw.PatchTreasures(ctx, c06Wire(req, &hydrapb.PatchTreasuresRequest{}))
		if err != nil {
			return c06Err(err), true
		}
		if resp == nil {
			return "nilnil", true
		}
		resp = c06Wire(resp, &hydrapb.PatchTreasuresResponse{})
		if len(resp.Results) != 1 {
			return fmt.Sprintf("patch ?results=%d", len(resp.Results)), true
		}
		return "patch " + resp.Results[0].Status.String(), true
	case "patchexp":
		n, _ := strconv.Atoi(f[1])
		req := &hydrapb.PatchExpiredTreasuresRequest{IslandID: island, SwampName: sw, HowMany: int32(n), Meta: s.patchMeta(f[2])}
		resp, err := gw.PatchExpiredTreasures(ctx, c06Wire(req, &hydrapb.PatchExpiredTreasuresRequest{}))
		if err != nil {
			return c06Err(err), true
		}
		if resp == nil {
			return "nilnil", true
		}
		resp = c06Wire(resp, &hydrapb.PatchExpiredTreasuresResponse{})
		out := []string{"patchexp"}
		for _, p := range resp.Patched {
			out = append(out, p.Key+"="+p.Status.String()+"|"+s.tsOut(p.ExpiredAt))
		}
		return strings.Join(out, " "), true
	case "getidx":
		ord := hydrapb.OrderType_ASC
		if f[1] == "desc" {
			ord = hydrapb.OrderType_DESC
		}
		from, _ := strconv.Atoi(f[2])
		lim, _ := strconv.Atoi(f[3])
		req := &hydrapb.GetByIndexRequest{IslandID: island, SwampName: sw, IndexType: hydrapb.IndexType_EXPIRATION_TIME, OrderType: ord, From: int32(from), Limit: int32(lim)}
		resp, err := gw.GetByIndex(ctx, c06Wire(req, &hydrapb.GetByIndexRequest{}))
		if err != nil {
			return c06Err(err), true
		}
		if resp == nil {
			return "nilnil", true
		}
		resp = c06Wire(resp, &hydrapb.GetByIndexResponse{})
		out := []string{"getidx"}
		for _, t := range resp.Treasures {
			out = append(out, t.Key+"="+s.rec(t))
		}
		return strings.Join(out, " "), true
	case "fexp":
		tf := &hydrapb.TreasureFilter{Operator: c30FOp(f[1])}
		ref := s.tsRaw(0)
		if len(f) > 2 {
			if f[2] == "now" {
				ref = s.tsRaw(t0)
			} else if t, ok := s.ts(f[2]); ok {
				ref = t
			}
		}
		tf.CompareValue = &hydrapb.TreasureFilter_ExpiredAtVal{ExpiredAtVal: ref}
		req := &hydrapb.GetByIndexStreamRequest{IslandID: island, SwampName: sw, IndexType: hydrapb.IndexType_KEY, OrderType: hydrapb.OrderType_ASC,
			KeysOnly: true, Filters: &hydrapb.FilterGroup{Logic: hydrapb.FilterLogic_AND, Filters: []*hydrapb.TreasureFilter{tf}}}
		st := &c30Stream{ctx: ctx}
		if err := gw.GetByIndexStream(c06Wire(req, &hydrapb.GetByIndexStreamRequest{}), st); err != nil {
			return c06Err(err), true
		}
		return strings.Join(append([]string{"fexp"}, st.keys...), " "), true
	}
	return "", false
}

// ---- generator -----------------------------------------------------------------

// expiry tokens: times relative to the case base, plus 0, epoch, pre-epoch.  Past tokens may be
// arbitrarily close to the base (every evaluation happens after the base, whatever the machine
// load: 50 ms and 1 µs before it must already count as expired); future tokens are >= 120 s away (every case ends with `within 60000`)
// unless a corpus case brackets them with waits.
// `i` keeps the expiries of different keys distinct (the index sort is not stable).
func c30Exp(rng *rand.Rand, i int) string {
	d := int64(i) * 1000003
	switch rng.Intn(12) {
	case 0, 1, 2:
		return "b" + strconv.FormatInt(-3600000000000+d, 10) // an hour ago
	case 3:
		if rng.Intn(2) == 0 {
			return "b" + strconv.FormatInt(-1000-d, 10) // a microsecond (and a bit) before the base
		}
		return "b" + strconv.FormatInt(-50000000-d, 10) // 50 ms before the base
	case 4, 5, 6:
		return "b" + strconv.FormatInt(3600000000000+d, 10) // in an hour
	case 7:
		return "b" + strconv.FormatInt(120000000000+d, 10) // in two minutes
	case 8:
		return "a" + strconv.FormatInt(1000000000+d, 10) // 1970 + 1 s
	case 9:
		return "a" + strconv.FormatInt(-500000000-d, 10) // pre-epoch, with a sub-second part
	case 10:
		return "a" + strconv.FormatInt(-5000000000-d*1000, 10) // pre-epoch (whole milliseconds)
	}
	return "a0"
}

func c30Val(rng *rand.Rand) string {
	return c06Pick(rng, []string{"bytes:c70080", "bytes:c70080", "bytes:c70080", "bytes:c70080", "i64:5", "void", "str:61", "bytes:00"})
}

func c30Meta(rng *rand.Rand, i int) string {
	set, clr := "", "0"
	switch rng.Intn(6) {
	case 0:
		clr = "1"
	case 1:
		clr = "1"
		set = c30Exp(rng, i)
	case 2:
	default:
		set = c30Exp(rng, i)
	}
	return strings.Join([]string{c06Pick(rng, []string{"0", "1"}), c06Pick(rng, c06Users), c06Pick(rng, []string{"0", "1"}), c06Pick(rng, c06Users), set, clr}, "|")
}

var c30Uniq int

func c30Op(rng *rand.Rand, persistent bool) string {
	ki := rng.Intn(len(c06Keys))
	k := c06Keys[ki]
	switch r := rng.Intn(100); {
	case r < 22:
		e := c30Exp(rng, ki)
		if e == "a0" || rng.Intn(5) == 0 {
			e = ""
		}
		return "set " + c06Pick(rng, []string{"11", "11", "11", "10"}) + " " + k + "|" + c30Val(rng) + "|||||" + e
	case r < 40:
		return "patch " + c06Pick(rng, []string{"0", "1", "1"}) + " " + k + " " + c30Meta(rng, ki)
	case r < 45:
		cond := c06Pick(rng, []string{"-", "-", "eq:77", "ge:0"})
		meta := "0||0||" + c30Exp(rng, ki)
		return "inc i64 " + k + " 1 " + cond + " " + meta + " " + meta
	case r < 55:
		return "shiftexp 0"
	case r < 63:
		// one record at a time with a fresh expiry (the same expiry on several records would make the
		// unstable index sort ambiguous), or all of them with a clear
		if rng.Intn(4) == 0 {
			return "patchexp 0 " + c06Pick(rng, []string{"0", "1"}) + "|" + c06Pick(rng, c06Users) + "|0|||1"
		}
		// … or a patch that leaves ExpiredAt alone: the claimed records stay expired and stay indexed
		if rng.Intn(3) == 0 {
			return "patchexp " + c06Pick(rng, []string{"0", "1", "2"}) + " 0|" + c06Pick(rng, []string{"u7", "u8", ""}) + "|0|" + c06Pick(rng, []string{"u7", "u8"}) + "||0"
		}
		c30Uniq++
		return "patchexp 1 " + c30Meta(rng, 10+c30Uniq)
	case r < 72:
		return "getidx " + c06Pick(rng, []string{"asc", "asc", "desc"}) + " " + c06Pick(rng, []string{"0", "0", "1"}) + " " + c06Pick(rng, []string{"0", "0", "2"})
	case r < 80:
		op := c06Pick(rng, []string{"lt", "lt", "le", "gt", "ge", "ne", "empty", "notempty"})
		return "fexp " + op + " " + c06Pick(rng, []string{"now", "now", "b0", "a0", "b3600000000000"})
	case r < 88:
		return "getall"
	case r < 93:
		return "get " + strings.Join(c06SomeKeys(rng, 3), " ")
	case r < 96:
		return "del " + k
	default:
		if persistent {
			return "close"
		}
		return "count"
	}
}

var c30Corpus = []c06CorpusCase{
	// pre-epoch expiry through patch meta, Set (sub-second) and increment metadata: expired and indexed, invisible in Get
	{[]string{"mem", "p1"}, []string{"set 11 k0|bytes:c70080|||||", "patch 0 k0 0||0||a-5000000000|0", "get k0", "getidx asc 0 0", "fexp lt now", "fexp notempty", "shiftexp 0", "issw"}},
	{[]string{"mem"}, []string{"set 11 k0|i64:5|||||a-500000000 k1|i64:5|||||a-5000000000", "getall", "fexp lt now", "shiftexp 0", "getall"}},
	{[]string{"mem"}, []string{"inc i64 k0 1 - 0||0||a-7000000000 -", "get k0", "shiftexp 0"}},
	// zero / epoch mean "never": set, slide, clear; clear wins over set
	{[]string{"mem", "p1"}, []string{"set 11 k0|bytes:c70080|||||b-3600000000000 k1|bytes:c70080|||||b3600000000000 k2|bytes:c70080|||||",
		"getidx asc 0 0", "fexp empty", "patch 0 k0 0||0|||1", "patch 0 k1 0||0||a0|0", "patch 0 k2 0||0||b-2500000000|1", "getall", "getidx asc 0 0", "shiftexp 0",
		"patch 0 k2 0||0||b-2500000000|0", "getidx desc 0 0", "fexp lt now", "shiftexp 1", "getall"}},
	// claim paths with limits, oldest first; patch-expired slides the expiry into the future
	{[]string{"mem", "p1"}, []string{"set 11 k0|bytes:c70080|||||b-3600000000000 k1|bytes:c70080|||||b-3500000000000 k2|bytes:c70080|||||b-3400000000000 k3|i64:1|||||b-3300000000000 k4|bytes:c70080|||||b3600000000000",
		"patchexp 2 1|u1|0||b7200000000000|0", "getidx asc 0 0", "patchexp 0 0||0|||1", "getall", "shiftexp 1", "shiftexp 0", "count"}},
	// an expiry that passes while we wait.  Before: 3 s of slack for three requests; after: the second wait ends
	// >= 50 ms past the expiry whatever the load (sleeps never return early), so "expired" is certain there.
	{[]string{"mem"}, []string{"set 11 k0|bytes:c70080|||||b3000000000 k1|bytes:c70080|||||b3600000000000", "shiftexp 0", "fexp lt now", "getidx asc 0 0", "within 2800", "wait 3050", "fexp lt now", "patchexp 0 0||0||b3600000000000|0", "shiftexp 0", "getall"}},
	// reloaded records (every "changed" flag clear) are claimed by a PatchExpiredTreasures that does not touch
	// ExpiredAt: they are still expired, so every claim path must still find them afterwards
	{[]string{"p1", "p0"}, []string{"set 11 k0|bytes:c70080|||||b-3600000000000 k1|bytes:c70080|||||b-50000000 k2|bytes:c70080|||||b3600000000000", "close",
		"patchexp 0 0||0|u7||0", "getall", "getidx asc 0 0", "fexp lt now", "shiftexp 1", "getall", "patchexp 1 0||0|u8||0", "getall", "shiftexp 0", "getall"}},
	// what a reload must keep: a cleared expiry stays cleared, a pre-epoch expiry stays what it was, claimed records stay claimed
	{[]string{"p1", "p0"}, []string{"set 11 k0|bytes:c70080|||||b3600000000000 k1|bytes:c70080|||||b-3600000000000 k2|bytes:c70080||||| k3|i64:1|||||b-3500000000000",
		"patch 0 k2 0||0||a-5000000000|0", "getall", "close", "getall", "patch 0 k0 0||0|||1", "getall", "close", "getall", "getidx asc 0 0",
		"shiftexp 1", "getall", "restart", "getall", "fexp lt now", "shiftexp 0", "getall", "close", "getall"}},
	// a record whose guard is held while ShiftExpired walks the index is skipped, stays indexed and is claimed next time
	{[]string{"mem", "p1"}, []string{"set 11 k0|i64:5|||||b-3600000000000 k1|bytes:c70080|||||b-3500000000000 k2|bytes:c70080|||||b3600000000000", "getidx asc 0 0",
		"busyshift k0 0", "getall", "getidx asc 0 0", "fexp lt now", "shiftexp 0", "getall"}},
	// … also when the guard holder stores nothing afterwards (an Increment refused for the record's type): nothing re-files the record
	{[]string{"mem", "p1"}, []string{"set 11 k0|i64:5|||||b-3600000000000 k1|bytes:c70080|||||b-3500000000000 k2|bytes:c70080|||||b3600000000000", "getidx asc 0 0",
		"busyshift k1 0", "getall", "fexp lt now", "shiftexp 0", "getall"}},
	{[]string{"mem"}, []string{"set 11 k0|i64:5|||||b-3600000000000 k1|bytes:c70080|||||b-3500000000000 k2|bytes:c70080|||||b3600000000000",
		"busyshift k1 1", "busyshift k1 0", "getall", "shiftexp 0", "getall"}},
	// expiries 50 ms and 1 µs before the base are expired on every path from the first request on
	{[]string{"mem", "p1"}, []string{"set 11 k0|bytes:c70080|||||b-50000000 k1|i64:1|||||b-1000 k2|bytes:c70080|||||b120000000000", "fexp lt now", "getidx asc 0 0", "patchexp 1 0||0||b3600000000000|0", "shiftexp 0", "getall"}},
	// reload keeps the expiry and rebuilds the index
	{[]string{"p1", "p0"}, []string{"set 11 k0|bytes:c70080|||||b-3600000000000 k1|i64:7|||||b3600000000000 k2|i64:0|||||b-3500000000000", "getidx asc 0 0", "close", "getall", "getidx asc 0 0", "fexp lt now", "shiftexp 0", "close", "getall"}},
	// failed conditional increment moves the expiry in memory only
	{[]string{"mem"}, []string{"set 11 k0|i64:5||||| k1|i64:6|||||b-3600000000000", "getidx asc 0 0", "inc i64 k0 1 eq:77 - 0||0||b-3500000000000", "get k0", "fexp lt now", "getidx asc 0 0", "shiftexp 0", "getall"}},
}

func c30Gen(rng *rand.Rand, tier string, w *bufio.Writer) {
	cases, length := 40, 26
	if tier == "thorough" {
		cases, length = 500, 80
	}
	n := 0
	c30Uniq = 0
	emit := func(kind string, ops []string) {
		fmt.Fprintf(w, "case %d kind=%s\n", n, kind)
		n++
		for _, o := range ops {
			fmt.Fprintln(w, o)
		}
	}
	for _, c := range c30Corpus {
		for _, k := range c.kinds {
			emit(k, append(append([]string{}, c.ops...), "within 60000"))
		}
	}
	for i := 0; i < cases; i++ {
		kind := c06Pick(rng, []string{"mem", "mem", "p1", "p0"})
		var ops []string
		for j, l := 0, 8+rng.Intn(length); j < l; j++ {
			ops = append(ops, c30Op(rng, kind != "mem"))
		}
		if kind != "mem" {
			ops = append(ops, "getall", c06Pick(rng, []string{"close", "close", "restart"}), "getall")
		}
		ops = append(ops, "getall", "getidx asc 0 0", "fexp lt now", "shiftexp 0", "getall", "within 60000")
		emit(kind, ops)
	}
}
