module verif/harness

go 1.26.2

require (
	github.com/golang/snappy v1.0.0
	github.com/hydraide/hydraide v0.0.0
	github.com/hydraide/hydraide/sdk/go/hydraidego/v3 v3.0.0
	github.com/klauspost/compress v1.18.5
	github.com/pierrec/lz4 v2.6.1+incompatible
)

replace github.com/hydraide/hydraide => /repo

replace github.com/hydraide/hydraide/sdk/go/hydraidego/v3 => /repo/sdk/go/hydraidego
