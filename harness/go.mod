module verif/harness

go 1.26.2

require (
	github.com/cespare/xxhash/v2 v2.3.0
	github.com/golang/snappy v1.0.0
	github.com/hydraide/hydraide v0.0.0
	github.com/hydraide/hydraide/sdk/go/hydraidego/v3 v3.0.0
	github.com/klauspost/compress v1.18.5
	github.com/pierrec/lz4 v2.6.1+incompatible
	github.com/vmihailenco/msgpack/v5 v5.4.1
	google.golang.org/grpc v1.81.0
	google.golang.org/protobuf v1.36.11
)

require (
	github.com/google/uuid v1.6.0 // indirect
	github.com/shirou/gopsutil v3.21.11+incompatible // indirect
	github.com/tklauser/go-sysconf v0.3.16 // indirect
	github.com/tklauser/numcpus v0.11.0 // indirect
	github.com/vmihailenco/tagparser/v2 v2.0.0 // indirect
	golang.org/x/net v0.53.0 // indirect
	golang.org/x/sys v0.43.0 // indirect
	golang.org/x/text v0.36.0 // indirect
	google.golang.org/genproto/googleapis/rpc v0.0.0-20260427160629-7cedc36a6bc4 // indirect
)

replace github.com/hydraide/hydraide => /repo

replace github.com/hydraide/hydraide/sdk/go/hydraidego/v3 => /repo/sdk/go/hydraidego
