#!/bin/bash
# MANIFEST.setup_cmd — build the framework from files on disk only (offline).
set -euo pipefail
cd "$(dirname "$0")"
export GOFLAGS=-mod=mod GOPROXY=off
mkdir -p bin build evidence replays .locks lean/Hv/Generated
echo "[setup] extract"; (cd extract && go build -o ../bin/extract .)
echo "[setup] facts"; bin/extract -repo "${VERIF_REPO:-/repo}" -out "$PWD/lean/Hv/Generated" >/dev/null || true
echo "[setup] lake build"; (cd lean && lake build Hv Driver drv 2>&1 | grep -v '^trace' | tail -n 40)
echo "[setup] hx"; python3 - <<'PY'
import sys, os
sys.path.insert(0, os.getcwd())
from checks import common as K
ctx = K.Ctx("setup", "quick", 1)
sys.exit(0 if K.build_hx(ctx) else 1)
PY
echo "[setup] done"
