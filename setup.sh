#!/bin/bash
# MANIFEST.setup_cmd — build the framework from files on disk only (offline).
set -euo pipefail
cd "$(dirname "$0")"
export GOFLAGS=-mod=mod GOPROXY=off
mkdir -p bin build evidence replays .locks lean/Hv/Generated
echo "[setup] extract"; (cd extract && go build -o ../bin/extract .)
echo "[setup] facts"; bin/extract -repo "${VERIF_REPO:-/repo}" >/dev/null || true
echo "[setup] lake build"; (cd lean && lake build Hv Driver drv 2>&1 | grep -v '^trace' | tail -n 40)
echo "[setup] hx"; cp "${VERIF_REPO:-/repo}/go.sum" harness/go.sum; (cd harness && go build -tags verif -o ../bin/hx .)
echo "[setup] done"
